// t_shiftc.cpp - C04 (compile-time amounts): bit_shift_left<S>, bit_shift_right<S> for every S in 0..bits; rotl<S>, rotr<S>.
#include "vx_bitmodels.hpp"

namespace vx {

template<unsigned SH, int KIND>
struct ct_name {
    static const char* get() {
        static char buf[40];
        static const char* k[] = {"bit_shift_left", "bit_shift_right", "rotl_c", "rotr_c"};
        std::snprintf(buf, sizeof buf, "%s<%u>", k[KIND], SH);
        return buf;
    }
};

#define VX_CT_OP(NAME, KIND, EXPR, MODEL)                                                       \
    template<unsigned SH> struct NAME : OpBase {                                                \
        static const int arity = 1;                                                             \
        static const char* name() { return ct_name<SH, KIND>::get(); }                          \
        template<class V> static auto apply(V a, V, V) VX_AUTO(EXPR)                            \
        template<class S> static std::uint64_t model(S a, S, S) { return MODEL; }               \
        template<class S> static bool nontrivial(S a, S, S) { return shift_nt(a, SH % (nbits<S>() + 1)); } \
    };
VX_CT_OP(bsl, 0, avel::bit_shift_left<SH>(a), m_shl(a, SH))
VX_CT_OP(bsr, 1, avel::bit_shift_right<SH>(a), m_shr(a, SH))
VX_CT_OP(rlc, 2, avel::rotl<SH>(a), m_rotl(a, SH % nbits<S>()))
VX_CT_OP(rrc, 3, avel::rotr<SH>(a), m_rotr(a, SH % nbits<S>()))

template<class V, unsigned SH, unsigned END>
struct Shifts {
    static void run(const DomainS<typename V::scalar>& d, const std::vector<typename V::scalar>& K) {
        explore<V, bsl<SH> >(d, &K);
        explore<V, bsr<SH> >(d, &K);
        Shifts<V, SH + 1, END>::run(d, K);
    }
};
template<class V, unsigned END> struct Shifts<V, END, END> { static void run(const DomainS<typename V::scalar>&, const std::vector<typename V::scalar>&) {} };

template<class V, unsigned SH, unsigned END>
struct Rots {
    static void run(const DomainS<typename V::scalar>& d, const std::vector<typename V::scalar>& K) {
        explore<V, rlc<SH> >(d, &K);
        explore<V, rrc<SH> >(d, &K);
        Rots<V, SH + 1, END>::run(d, K);
    }
};
template<class V, unsigned END> struct Rots<V, END, END> { static void run(const DomainS<typename V::scalar>&, const std::vector<typename V::scalar>&) {} };

template<class V>
struct PerType {
    typedef typename V::scalar S;
    static void run() {
        const unsigned B = 8 * sizeof(S);
        std::vector<S> K = as_scalars<S>(alphabet_K(B));
        std::vector<S> vals;
        if (B <= 16) { for (std::uint64_t i = 0; i < (1ull << B); ++i) { typename uint_of<S>::type u = (typename uint_of<S>::type)i; S s; std::memcpy(&s, &u, sizeof s); vals.push_back(s); } }
        else vals = as_scalars<S>(alphabet_L(B, B == 32 ? true : opt().thorough));
        DomainOf<S, DomList1<S> > d = erase<S>(DomList1<S>(vals, B <= 16 ? "every value" : (B == 32 ? "L32" : "L64")));
        Shifts<V, 0, B + 1>::run(d, K);
        Rots<V, 0, B + 2>::run(d, K);
        // amounts above the bit width whose remainder has its upper bits set (a wrong modulus such as S % 32 for 64-bit lanes: seed C04-c)
        explore<V, rlc<2 * B - 1> >(d, &K);
        explore<V, rrc<2 * B - 1> >(d, &K);
        explore<V, rlc<B + B / 2 + 1> >(d, &K);
        explore<V, rrc<B + B / 2 + 1> >(d, &K);
        explore<V, rlc<2 * B + 3> >(d, &K);
        explore<V, rrc<2 * B + 3> >(d, &K);
        explore<V, rlc<255 * B + 5> >(d, &K);
        explore<V, rrc<255 * B + 5> >(d, &K);
    }
};

}  // namespace vx

int main(int argc, char** argv) {
    if (int rc = vx::parse_args(argc, argv)) return rc;
    vx::for_each_int_type<vx::PerType>();
    return vx::write_results("t_shiftc", vx::part_name());
}
