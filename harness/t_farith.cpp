// t_farith.cpp - C10: float + - * / (and compound forms, ++/--), sqrt, unary minus, in all four rounding modes.
#include "vx_float.hpp"

namespace vx {

#define VX_FA_OP(NAME, ARITY, EXPR, MODEL)                                                      \
    struct NAME : OpBase {                                                                      \
        static const int arity = ARITY;                                                         \
        static const char* name() { return #NAME; }                                             \
        template<class V> static auto apply(V a, V b, V) VX_AUTO(EXPR)                          \
        template<class S> static std::uint64_t model(S a, S b, S) { volatile S x = a, y = b; (void)y; S r = MODEL; return bits_of(r); } \
        template<class S> static bool same(std::uint64_t e, std::uint64_t g) { return same_bits_nan<S>(e, g); } \
        template<class S> static bool nontrivial(S a, S b, S) { S r = from_bits<S>(model(a, b, b)); return r != r || r == S(0) || std::isinf(r) || std::fabs(r) < std::numeric_limits<S>::min() || a != a || b != b; } \
    };
VX_FA_OP(add, 2, a + b, x + y)
VX_FA_OP(sub, 2, a - b, x - y)
VX_FA_OP(mul, 2, a * b, x * y)
VX_FA_OP(div, 2, a / b, x / y)
VX_FA_OP(add_assign, 2, V(a += b), x + y)
VX_FA_OP(sub_assign, 2, V(a -= b), x - y)
VX_FA_OP(mul_assign, 2, V(a *= b), x * y)
VX_FA_OP(div_assign, 2, V(a /= b), x / y)
VX_FA_OP(preinc, 1, V(++a), x + S(1))
VX_FA_OP(predec, 1, V(--a), x - S(1))
VX_FA_OP(postinc_ret, 1, V(a++), x)
VX_FA_OP(postdec_ret, 1, V(a--), x)
VX_FA_OP(postinc_val, 1, V((a++, a)), x + S(1))
VX_FA_OP(postdec_val, 1, V((a--, a)), x - S(1))
VX_FA_OP(sqrt, 1, avel::sqrt(un(a)), std::sqrt(x))

// unary minus: exactly the sign bit, NaNs included (bit-for-bit)
struct neg : OpBase {
    static const int arity = 1;
    static const char* name() { return "neg"; }
    template<class V> static auto apply(V a, V, V) VX_AUTO(-a)
    template<class S> static std::uint64_t model(S a, S, S) { return bits_of(a) ^ (1ull << (8 * sizeof(S) - 1)); }
};
struct unary_plus : OpBase {
    static const int arity = 1;
    static const char* name() { return "unary_plus"; }
    template<class V> static auto apply(V a, V, V) VX_AUTO(+a)
    template<class S> static std::uint64_t model(S a, S, S) { return bits_of(a); }
};

template<class V>
struct PerType {
    typedef typename V::scalar S;
    static void run() {
        const bool f32 = sizeof(S) == 4;
        std::vector<S> K = alphabet_KF<S>();
        std::vector<S> L = as_scalars<S>(f32 ? alphabet_F32L() : alphabet_F64L());
        DomainOf<S, DomProd2<S> > d2 = erase<S>(DomProd2<S>(L, L, f32 ? "F32L x F32L" : "F64L x F64L"));
        std::vector<S> U;
        if (f32) { std::vector<std::uint64_t> u = alphabet_F32L(), h = alphabet_F32H(); u.insert(u.end(), h.begin(), h.end()); sort_unique(u); U = as_scalars<S>(u); }
        else U = as_scalars<S>(alphabet_F64S(opt().thorough));
        DomainOf<S, DomList1<S> > d1 = erase<S>(DomList1<S>(U, f32 ? "F32L u F32H" : "F64S"));
        explore<V, add>(d2, &K);
        explore<V, sub>(d2, &K);
        explore<V, mul>(d2, &K);
        explore<V, div>(d2, &K);
        explore<V, add_assign>(d2, &K);
        explore<V, sub_assign>(d2, &K);
        explore<V, mul_assign>(d2, &K);
        explore<V, div_assign>(d2, &K);
        explore<V, preinc>(d1, &K);
        explore<V, predec>(d1, &K);
        explore<V, postinc_ret>(d1, &K);
        explore<V, postdec_ret>(d1, &K);
        explore<V, postinc_val>(d1, &K);
        explore<V, postdec_val>(d1, &K);
        explore<V, neg>(d1, &K);
        explore<V, unary_plus>(d1, &K);
        sqrt_pass(d1, K, std::integral_constant<bool, sizeof(S) == 4>());
    }
    static void sqrt_pass(const DomainS<S>& d1, const std::vector<S>& K, std::true_type) {
        if (exh32()) explore<V, sqrt>(erase<S>(DomFull1<S>()), &K);
        else explore<V, sqrt>(d1, &K);
    }
    static void sqrt_pass(const DomainS<S>& d1, const std::vector<S>& K, std::false_type) { explore<V, sqrt>(d1, &K); }
};

}  // namespace vx

int main(int argc, char** argv) {
    if (int rc = vx::parse_args(argc, argv)) return rc;
    for (int m = 0; m < 4; ++m) {
        std::fesetround(vx::round_modes()[m].mode);
        vx::name_suffix() = vx::round_modes()[m].suffix;
        vx::for_each_float_type<vx::PerType>();
        vx::for_each_float_scalar<vx::PerType>();
    }
    std::fesetround(FE_TONEAREST);
    return vx::write_results("t_farith", vx::part_name());
}
