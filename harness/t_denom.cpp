// t_denom.cpp - explorer B on Denominator objects.
//   default build          : C14, scalar Denominator<T>: for every divisor d construct the real object and check every numerator
//   -DVX_DENOM_VECTOR=1    : C15, Denominator<Vector<T,N>> with a different divisor per lane, and the broadcast constructor
#include "vx_core.hpp"
#include "vx_domains.hpp"
#include <map>
#include <limits>

namespace vx {

typedef __int128 i128;

template<class T> inline T from_u64(std::uint64_t b) { typename uint_of<T>::type u = (typename uint_of<T>::type)b; T t; std::memcpy(&t, &u, sizeof t); return t; }

// 16-bit: every numerator only in the deepest tier of each family (scalar thorough); the vector thorough tier (level 1) keeps the lattice numerators
inline bool thorough_small(int level) { return level >= 2; }

template<class T>
struct Plan {
    typedef std::numeric_limits<T> NL;
    bool small;  // 8/16-bit: numerators are simply every value
    std::vector<T> divs;
    std::vector<T> L;
    std::string dname, nname;

    // level 0: quick, vector denominators; 1: quick scalar / thorough vector; 2: thorough scalar
    explicit Plan(int level) {
        const bool thorough = level >= 2;
        const unsigned B = nbits<T>();
        small = B <= 16;
        std::vector<std::uint64_t> d;
        if (B == 8 || (B == 16 && level >= 1 && (level >= 2 || true) && thorough_small(level))) {
            for (std::uint64_t i = 1; i < (1ull << B); ++i) d.push_back(i);
            dname = "every non-zero divisor";
            nname = "every numerator";
        } else if (B == 16) {
            for (std::uint64_t i = 1; i < (1ull << B); ++i) d.push_back(i);
            dname = "every non-zero divisor";
            nname = "numerators: L16 lattice, multiples of d nearest both range ends and their neighbours (all 2^16 in thorough)";
            small = false;
        } else {
            const std::uint64_t lowlim = level >= 2 ? (1u << 18) : (level == 1 ? (1u << 11) : (1u << 8));
            for (std::uint64_t i = 1; i < lowlim; ++i) { d.push_back(i); if (std::is_signed<T>::value) d.push_back((0 - i) & low_mask(B)); }
            std::vector<std::uint64_t> l = alphabet_L(B, thorough);
            for (std::size_t i = 0; i < l.size(); i += (level == 0 ? 3 : 1)) d.push_back(l[i]);
            { std::vector<std::uint64_t> k = alphabet_K(B); d.insert(d.end(), k.begin(), k.end()); }
            // odd multipliers spread over the range (deterministic; plays the role of 'primes spread over the range')
            const unsigned spread = level >= 2 ? 16384 : (level == 1 ? 256 : 64);
            for (unsigned k = 1; k <= spread; ++k) d.push_back((0x9E3779B97F4A7C15ull * k | 1) & low_mask(B));
            for (unsigned k = 1; k <= spread; ++k) d.push_back(((low_mask(B) / spread) * k + 1) & low_mask(B));
            dname = level >= 2 ? "divisors: +-1..2^18, L lattice, 2^k, 2^k+-1, extremes, 32768 spread values"
                  : level == 1 ? "divisors: +-1..2^11, L lattice, 2^k, 2^k+-1, extremes, 512 spread values" : "divisors: +-1..2^8, K, every third L member, 128 spread values";
            nname = "numerators: 0, +-1, MIN, MAX, L lattice, multiples of d nearest both range ends and their neighbours, small multiples";
        }
        sort_unique(d);
        for (std::size_t i = 0; i < d.size(); ++i) if (d[i] != 0) divs.push_back(from_u64<T>(d[i]));
        L = as_scalars<T>(B == 8 ? alphabet_K(8) : alphabet_L(B, B == 32 ? level >= 1 : thorough));
        if (B == 32 && level == 0) { std::vector<T> k = as_scalars<T>(alphabet_K(32)); std::vector<T> l2; for (std::size_t i = 0; i < L.size(); i += 2) l2.push_back(L[i]); l2.insert(l2.end(), k.begin(), k.end()); L = l2; }
    }

    std::size_t nnum() const { return small ? (std::size_t(1) << nbits<T>()) : L.size() + 40; }

    // derived numerators of a divisor, computed once
    void derived(T d, T* out40) const { for (unsigned k = 0; k < 40; ++k) out40[k] = num(L.size() + k, d); }
    T num_cached(std::size_t j, const T* d40) const { return small ? from_u64<T>(j) : (j < L.size() ? L[j] : d40[j - L.size()]); }

    // the j-th numerator for a lane whose divisor is d
    T num(std::size_t j, T d) const {
        if (small) return from_u64<T>(j);
        if (j < L.size()) return L[j];
        const unsigned k = unsigned(j - L.size());  // 0..39: multiples of d near the ends and near zero, with neighbours
        i128 D = i128(d), lo = i128(NL::min()), hi = i128(NL::max());
        if (D < 0) D = -D;
        if (D == 0) D = 1;
        i128 base;
        switch (k / 5) {
            case 0: base = (hi / D) * D; break;          // largest multiple <= MAX
            case 1: base = (hi / D - 1) * D; break;
            case 2: base = (lo / D) * D; break;          // smallest multiple >= MIN (signed) / 0 (unsigned)
            case 3: base = (lo / D + 1) * D; break;
            case 4: base = D; break;
            case 5: base = 2 * D; break;
            case 6: base = -D; break;
            default: base = (hi / 2 / D) * D; break;
        }
        static const int delta[5] = {0, -1, 1, -2, 2};
        i128 n = base + delta[k % 5];
        if (n > hi) n = hi;
        if (n < lo) n = lo;
        return T(n);
    }
};

template<class T> inline bool dom_ok(T n, T d) {
    if (d == T(0)) return false;
    if (std::is_signed<T>::value && d == T(-1) && n == std::numeric_limits<T>::min()) return false;
    return true;
}
// the C++ operators on the element type are the specification (callers exclude d == 0 and MIN / -1); widened so that small types do not promote oddly
template<class T> inline T m_quot(T n, T d) { typedef typename std::conditional<std::is_signed<T>::value, long long, unsigned long long>::type W; return T(W(n) / W(d)); }
template<class T> inline T m_rem(T n, T d) { typedef typename std::conditional<std::is_signed<T>::value, long long, unsigned long long>::type W; return T(W(n) % W(d)); }

struct Book {
    std::string subject;
    std::map<std::string, Stat*> stats;
    std::string domain;
    Stat& st(const char* op) {
        std::map<std::string, Stat*>::iterator it = stats.find(op);
        if (it != stats.end()) return *it->second;
        Stat& s = new_stat(subject, op, domain);
        stats[op] = &s;
        return s;
    }
    void ok(const char* op, bool nt) { Stat& s = st(op); ++s.evals; ++s.distinct; if (nt) ++s.nontrivial; }
    void fail(const char* op, std::uint64_t key, const std::string& detail) {
        Stat& s = st(op);
        ++s.fails;
        s.fp += mix(key);
        if (s.witnesses.size() < 4) add_witness(s, "{\"case\":" + jstr(detail) + ",\"args\":[]}");
    }
    void samples() {
        for (std::map<std::string, Stat*>::iterator it = stats.begin(); it != stats.end(); ++it)
            if (it->second->samples.empty()) add_sample(*it->second, "{\"subject\":" + jstr(subject) + ",\"op\":" + jstr(it->first) + ",\"pairs\":" + u64s(it->second->evals) + "}");
    }
};

template<class T> inline std::string pair_str(T n, T d) { return "n=" + hexval(n) + " d=" + hexval(d); }
template<class T> inline std::uint64_t pair_key(T n, T d, unsigned op) { return hcomb(hcomb(bits_of(n), bits_of(d)), op); }

#ifndef VX_DENOM_VECTOR
//==============================================================================================
// C14: scalar Denominator<T>
//==============================================================================================
template<class T>
struct ScalarDenom {
    typedef avel::Denominator<T> D;
    Book book;
    struct Ctor { T d; D* out; void operator()() { *out = D(d); } };
    struct Use {
        D* den; const T* n; unsigned cnt; T *q1, *r1, *q2, *r2, *q3, *r3;
        void operator()() {
            for (unsigned i = 0; i < cnt; ++i) {
                avel::div_type<T> qr = div(n[i], *den);  // hidden friend: found by ADL
                q1[i] = qr.quot; r1[i] = qr.rem;
                q2[i] = n[i] / *den; r2[i] = n[i] % *den;
                T a = n[i]; a /= *den; q3[i] = a;
                T b = n[i]; b %= *den; r3[i] = b;
            }
        }
    };
    void run() {
        book.subject = std::string("denom") + scalar_tag<T>::s();
        if (!opt().only_subject.empty() && opt().only_subject != book.subject) return;
        Plan<T> plan(opt().thorough ? 2 : 1);
        book.domain = plan.dname + "; " + plan.nname;
        const std::size_t NN = plan.nnum();
        static const unsigned BLK = 256;
        T nb[BLK], q1[BLK], r1[BLK], q2[BLK], r2[BLK], q3[BLK], r3[BLK];
        static const char* ops[6] = {"div_quot", "div_rem", "quot", "rem", "quot_assign", "rem_assign"};
        Stat* S6[6];
        for (unsigned k = 0; k < 6; ++k) S6[k] = &book.st(ops[k]);
        for (std::size_t di = 0; di < plan.divs.size(); ++di) {
            const T d = plan.divs[di];
            alignas(D) unsigned char raw[sizeof(D)];
            std::memset(raw, 0, sizeof raw);
            D* den = reinterpret_cast<D*>(raw);
            Ctor c = {d, den};
            int sig = guarded(c);
            book.ok("construct", d == T(1) || d == T(-1) || d == std::numeric_limits<T>::min() || d == std::numeric_limits<T>::max());
            if (sig) { book.fail("construct", pair_key(T(0), d, 90), "signal " + u64s(std::uint64_t(sig)) + " constructing Denominator(" + hexval(d) + ")"); continue; }
            book.ok("value", true);
            if (den->value() != d) book.fail("value", pair_key(T(0), d, 91), "value() = " + hexval(den->value()) + " for d=" + hexval(d));
            T d40[40];
            if (!plan.small) plan.derived(d, d40);
            for (std::size_t j0 = 0; j0 < NN; j0 += BLK) {
                unsigned cnt = 0;
                for (std::size_t j = j0; j < NN && j < j0 + BLK; ++j) {
                    T n = plan.num_cached(j, d40);
                    if (dom_ok(n, d)) nb[cnt++] = n;
                }
                Use u = {den, nb, cnt, q1, r1, q2, r2, q3, r3};
                sig = guarded(u);
                if (sig) { book.fail("div_quot", pair_key(nb[0], d, 92), "signal " + u64s(std::uint64_t(sig)) + " dividing by Denominator(" + hexval(d) + ") near " + pair_str(nb[0], d)); continue; }
                std::uint64_t nts = 0;
                for (unsigned i = 0; i < cnt; ++i) {
                    const T eq = m_quot(nb[i], d), er = m_rem(nb[i], d);
                    const T got[6] = {q1[i], r1[i], q2[i], r2[i], q3[i], r3[i]};
                    nts += (eq >= T(2) || (std::is_signed<T>::value && i128(eq) <= -2)) ? 1 : 0;
                    for (unsigned k = 0; k < 6; ++k) {
                        const T e = (k % 2 == 0) ? eq : er;
                        if (got[k] != e) book.fail(ops[k], pair_key(nb[i], d, k), pair_str(nb[i], d) + " got " + hexval(got[k]) + " expected " + hexval(e));
                    }
                }
                for (unsigned k = 0; k < 6; ++k) { Stat& s6 = *S6[k]; s6.evals += cnt; s6.distinct += cnt; s6.nontrivial += nts; }  // counted per block: a map lookup per pair dominated the run
            }
        }
        book.samples();
    }
};

template<class T> inline void run_scalar() {
    ScalarDenom<T>* s = new ScalarDenom<T>();
    FpGuard fpg(std::string("denom") + scalar_tag<T>::s() + ":all");
    s->run();
}
#else
//==============================================================================================
// C15: Denominator<Vector<T,N>>
//==============================================================================================
template<class V>
struct VectorDenom {
    typedef typename V::scalar T;
    static const unsigned W = V::width;
    typedef avel::Denominator<V> DV;
    typedef avel::Denominator<T> DS;
    Book book;

    template<class DVV, class = void>
    struct ValueOf { static bool get(const DVV&, T*) { return false; } };
    template<class DVV>
    struct ValueOf<DVV, typename std::enable_if<(sizeof(std::declval<const DVV&>().value()) > 0)>::type> {
        static bool get(const DVV& d, T* out) { to_lanes(d.value(), out); return true; }
    };
    struct Ctor { V d; unsigned char* out; void operator()() { DV tmp(d); std::memcpy(out, &tmp, sizeof(DV)); } };
    template<class DVV, bool OK = std::is_constructible<DVV, DS>::value>
    struct BcastImpl { static void go(T d, unsigned char* out) { DS s(d); DVV tmp(s); std::memcpy(out, &tmp, sizeof(DVV)); } };
    template<class DVV>
    struct BcastImpl<DVV, false> { static void go(T, unsigned char*) {} };
    struct Bcast { T d; unsigned char* out; void operator()() { BcastImpl<DV>::go(d, out); } };
    static const unsigned CH = 128;  // numerator vectors per guarded batch
    struct Use {
        const unsigned char* den; const T* n; unsigned cnt; T* out;  // out: 6 result vectors of W lanes per numerator vector
        void operator()() {
            DV d = *reinterpret_cast<const DV*>(den);
            for (unsigned k = 0; k < cnt; ++k) {
                V nv = from_lanes<V>(n + k * W);
                T* o = out + std::size_t(k) * 6 * W;
                avel::div_type<V> qr = div(nv, d);
                to_lanes(qr.quot, o + 0 * W); to_lanes(qr.rem, o + 1 * W);
                to_lanes(nv / d, o + 2 * W); to_lanes(nv % d, o + 3 * W);
                V a = nv; a /= d; to_lanes(a, o + 4 * W);
                V b = nv; b %= d; to_lanes(b, o + 5 * W);
            }
        }
    };

    void check_block(const Plan<T>& plan, const unsigned char* den, const T* dl, const char* prefix, unsigned opbase) {
        static const char* ops[6] = {"div_quot", "div_rem", "quot", "rem", "quot_assign", "rem_assign"};
        std::string opn[6];
        for (unsigned k = 0; k < 6; ++k) opn[k] = std::string(prefix) + ops[k];
        Stat* sts[6];
        for (unsigned k = 0; k < 6; ++k) sts[k] = &book.st(opn[k].c_str());
        const std::size_t NN = plan.nnum();
        static T nl[CH * W];
        static bool dom[CH * W];
        static T res[CH * 6 * W];
        static T d40[W][40];
        if (!plan.small) for (unsigned i = 0; i < W; ++i) plan.derived(dl[i], d40[i]);
        for (std::size_t j0 = 0; j0 < NN; j0 += CH) {
            const unsigned cnt = unsigned(NN - j0 < CH ? NN - j0 : CH);
            for (unsigned k = 0; k < cnt; ++k)
                for (unsigned i = 0; i < W; ++i) {
                    // every lane walks through all numerators, each lane at a different phase
                    T n = plan.num_cached((j0 + k + 7 * i) % NN, d40[i]);
                    bool ok = dom_ok(n, dl[i]);
                    nl[k * W + i] = ok ? n : T(0);
                    dom[k * W + i] = ok;
                }
            Use u = {den, nl, cnt, res};
            int sig = guarded(u);
            if (sig) { book.fail(opn[0].c_str(), pair_key(nl[0], dl[0], opbase + 92), "signal " + u64s(std::uint64_t(sig)) + " near " + pair_str(nl[0], dl[0])); continue; }
            for (unsigned k = 0; k < cnt; ++k)
                for (unsigned i = 0; i < W; ++i) {
                    if (!dom[k * W + i]) continue;
                    const T n = nl[k * W + i];
                    const T eq = m_quot(n, dl[i]), er = m_rem(n, dl[i]);
                    const bool nt = eq >= T(2) || (std::is_signed<T>::value && i128(eq) <= -2);
                    for (unsigned o = 0; o < 6; ++o) {
                        Stat& s = *sts[o];
                        ++s.evals; ++s.distinct; s.nontrivial += nt;
                        const T e = (o % 2 == 0) ? eq : er;
                        const T got = res[(std::size_t(k) * 6 + o) * W + i];
                        if (got != e) {
                            if (s.witnesses.size() < 4) book.fail(opn[o].c_str(), pair_key(n, dl[i], opbase + o), pair_str(n, dl[i]) + " lane " + u64s(i) + " got " + hexval(got) + " expected " + hexval(e));
                            else { ++s.fails; s.fp += mix(pair_key(n, dl[i], opbase + o)); }
                        }
                    }
                }
        }
    }

    void run() {
        book.subject = "denom" + vname<V>().substr(3);
        if (!opt().only_subject.empty() && opt().only_subject != book.subject) return;
        Plan<T> plan(opt().thorough ? 1 : 0);
        book.domain = plan.dname + " (W different divisors per vector); " + plan.nname + " (each lane at a different phase)";
        alignas(64) unsigned char raw[sizeof(DV) + 64];
        // (a) vectors of W different divisors
        const std::size_t ND = plan.divs.size();
        for (std::size_t d0 = 0; d0 < ND; d0 += W) {
            T dl[W];
            for (unsigned i = 0; i < W; ++i) dl[i] = plan.divs[(d0 + i) % ND];
            Ctor c;
            c.d = from_lanes<V>(dl);
            c.out = raw;
            int sig = guarded(c);
            book.ok("construct", true);
            if (sig) { book.fail("construct", pair_key(T(0), dl[0], 90), "signal " + u64s(std::uint64_t(sig)) + " constructing from divisors starting " + hexval(dl[0])); continue; }
            {
                T vl[W];
                book.ok("value", true);
                if (!ValueOf<DV>::get(*reinterpret_cast<const DV*>(raw), vl)) book.fail("value", 0xACCE55, "value() is not accessible");
                else {
                    bool good = true;
                    for (unsigned i = 0; i < W; ++i) good = good && vl[i] == dl[i];
                    if (!good) book.fail("value", pair_key(T(0), dl[0], 91), "value() differs from the divisors starting " + hexval(dl[0]));
                }
            }
            check_block(plan, raw, dl, "", 0);
        }
        // (a') partially uniform vectors: lanes [0,k) hold one divisor and lanes [k,W) another, for every split k, and all lanes equal except one, for every
        // lane (a constructor that takes a short cut when 'all' divisors are equal but looks at some of the lanes only: seed C15-c)
        {
            const T cand[] = {T(3), T(7), T(10), T(77), std::numeric_limits<T>::max(), T(std::numeric_limits<T>::max() / 3 * 2 + 1)};
            const unsigned NC = sizeof(cand) / sizeof(cand[0]);
            for (unsigned ia = 0; ia < NC; ++ia)
                for (unsigned ib = 0; ib < NC; ++ib) {
                    if (ia == ib || (!opt().thorough && (ia + ib) % 2 == 0 && W > 16)) continue;
                    for (unsigned pat = 1; pat < 2 * W; ++pat) {
                        T dl[W];
                        if (pat < W) for (unsigned i = 0; i < W; ++i) dl[i] = i < pat ? cand[ia] : cand[ib];   // split at lane pat
                        else for (unsigned i = 0; i < W; ++i) dl[i] = i == pat - W ? cand[ib] : cand[ia];      // only lane pat - W differs
                        Ctor c;
                        c.d = from_lanes<V>(dl);
                        c.out = raw;
                        int sig = guarded(c);
                        book.ok("construct", true);
                        if (sig) { book.fail("construct", pair_key(T(pat), dl[0], 95), "signal " + u64s(std::uint64_t(sig)) + " constructing from a partially uniform divisor vector"); continue; }
                        check_block(plan, raw, dl, "mixed_", 200);
                    }
                }
        }
        // (b) broadcast from a scalar denominator: same results as the vector {d,d,...} and as the model
        if (!std::is_constructible<DV, DS>::value) {
            book.ok("broadcast_construct", true);
            book.fail("broadcast_construct", 0xB0ADCA57, "Denominator<" + vname<V>() + "> has no constructor from the scalar Denominator<" + scalar_tag<T>::s() + ">");
            book.samples();
            return;
        }
        // every divisor of the plan for 8-bit types and in thorough; otherwise the lattice members (the broadcast path copies the scalar's fields,
        // so what matters is the class of d: 1, powers of two, neighbours, extremes, large and small values)
        std::vector<T> bdivs;
        if (nbits<T>() == 8 || opt().thorough) bdivs = plan.divs;
        else { for (std::size_t i = 0; i < plan.divs.size(); i += 37) bdivs.push_back(plan.divs[i]); for (std::size_t i = 0; i < plan.L.size(); ++i) if (plan.L[i] != T(0)) bdivs.push_back(plan.L[i]); }
        for (std::size_t di = 0; di < bdivs.size(); ++di) {
            const T d = bdivs[di];
            if (std::is_signed<T>::value && sizeof(T) == 8 && d == T(-1)) {
                // Denominator<int64_t>(-1) is a C14 matter (it traps on x86); do not execute it here
                continue;
            }
            Bcast b = {d, raw};
            int sig = guarded(b);
            book.ok("broadcast_construct", true);
            if (sig) { book.fail("broadcast_construct", pair_key(T(0), d, 93), "signal " + u64s(std::uint64_t(sig)) + " broadcasting Denominator(" + hexval(d) + ")"); continue; }
            T dl[W];
            for (unsigned i = 0; i < W; ++i) dl[i] = d;
            {
                T vl[W];
                book.ok("broadcast_value", true);
                if (ValueOf<DV>::get(*reinterpret_cast<const DV*>(raw), vl)) {
                    bool good = true;
                    for (unsigned i = 0; i < W; ++i) good = good && vl[i] == d;
                    if (!good) book.fail("broadcast_value", pair_key(T(0), d, 94), "value() of the broadcast denominator differs from " + hexval(d));
                }
            }
            check_block(plan, raw, dl, "broadcast_", 100);
        }
        book.samples();
    }
};

template<class V>
struct PerType {
    static void run() {
        VectorDenom<V>* v = new VectorDenom<V>();
        FpGuard fpg("denom" + vname<V>().substr(3) + ":all");
        v->run();
    }
};
#endif

}  // namespace vx

int main(int argc, char** argv) {
    if (int rc = vx::parse_args(argc, argv)) return rc;
#ifndef VX_DENOM_VECTOR
    vx::run_scalar<vx::part_u>();
    vx::run_scalar<vx::part_i>();
    const char* tu = "t_denom";
#else
    vx::for_each_int_type<vx::PerType>();
    const char* tu = "t_denomv";
#endif
    if (vx::opt().replay) {
        unsigned long long fails = 0;
        for (std::size_t i = 0; i < vx::reg().stats.size(); ++i)
            if (vx::reg().stats[i]->op == vx::opt().only_op) fails += vx::reg().stats[i]->fails;
        std::printf("{\"replay\":true,\"signal\":0,\"fails\":%llu}\n", fails);
        return 0;
    }
    return vx::write_results(tu, vx::part_name());
}
