// ops_select.hpp - operation definitions shared by t_select.cpp and t_scalar.cpp (C16)
#ifndef VX_OPS_SELECT_HPP
#define VX_OPS_SELECT_HPP
#include "vx_explore.hpp"

namespace vx {
namespace osel {


typedef __int128 i128;

template<class S> inline std::uint64_t trunc_bits(i128 v) { return std::uint64_t(v) & low_mask(nbits<S>()); }

// mask built from the raw representation (independent of AVEL's mask constructors): lane set iff c's lane is non-zero bits
template<class V>
inline typename V::mask mk(V c) {
    typename V::scalar tmp[V::width];
    to_lanes(c, tmp);
    std::uint8_t b[V::width];
    for (unsigned i = 0; i < V::width; ++i) b[i] = bits_of(tmp[i]) != 0;
    return make_mask<typename V::mask>(b);
}
template<class S> inline bool mk(Sc<S> c) { return bits_of(c.v) != 0; }

// the same mask reached through a sequence of insert<N> calls from an all-false mask (a mask is whatever its producers leave behind: seed C07-c
// made insert write a non-canonical 'true' lane that every observer but keep/clear accepted)
template<class M, unsigned N, unsigned W> struct InsAll { static M go(M m, const bool* b) { return InsAll<M, N + 1, W>::go(avel::insert<N>(m, b[N]), b); } };
template<class M, unsigned W> struct InsAll<M, W, W> { static M go(M m, const bool*) { return m; } };
template<class V> inline typename V::mask mk_ins(V c) {
    typename V::scalar tmp[V::width];
    to_lanes(c, tmp);
    bool b[V::width];
    for (unsigned i = 0; i < V::width; ++i) b[i] = bits_of(tmp[i]) != 0;
    return InsAll<typename V::mask, 0, V::width>::go(typename V::mask(false), b);
}
template<class S> inline bool mk_ins(Sc<S> c) { return bits_of(c.v) != 0; }

template<class A> inline typename A::value_type at0(const A& arr) { return arr[0]; }
template<class A> inline typename A::value_type at1(const A& arr) { return arr[1]; }

template<class S, bool FLT = std::is_floating_point<S>::value> struct M;

template<class S> struct M<S, false> {
    static i128 val(S a) { return i128(a); }  // mathematical value under the type's signedness
    static bool lt(S a, S b) { return a < b; }
    static std::uint64_t min(S a, S b) { return bits_of(b < a ? b : a); }
    static std::uint64_t max(S a, S b) { return bits_of(a < b ? b : a); }
    static std::uint64_t clamp(S x, S lo, S hi) { return bits_of(x < lo ? lo : (hi < x ? hi : x)); }
    static std::uint64_t abs(S a) { i128 v = val(a); return trunc_bits<S>(v < 0 ? -v : v); }
    static std::uint64_t neg_abs(S a) { i128 v = val(a); return trunc_bits<S>(v < 0 ? v : -v); }
    static std::uint64_t negate(bool m, S a) { i128 v = val(a); return trunc_bits<S>(m ? -v : v); }
    static std::uint64_t average(S a, S b) { return trunc_bits<S>((val(a) + val(b)) / 2); }
    static std::uint64_t midpoint(S a, S b) {
        i128 x = val(a), y = val(b);
        return trunc_bits<S>(x <= y ? x + (y - x) / 2 : x - (x - y) / 2);
    }
    static bool ok(S) { return true; }
    static bool same_value(std::uint64_t e, std::uint64_t g) { return e == g; }
    static bool nt2(S a, S b) {
        std::uint64_t top = 1ull << (nbits<S>() - 1);
        i128 s = val(a) + val(b);
        bool odd = (s & 1) != 0;
        bool out = std::is_signed<S>::value ? (s < -i128(top) || s >= i128(top)) : (s >= (i128(1) << nbits<S>()));
        return odd || out || bits_of(a) == top || bits_of(b) == top;
    }
};

template<class S> struct M<S, true> {
    typedef typename uint_of<S>::type U;
    static const U SIGN = U(1) << (8 * sizeof(S) - 1);
    static bool lt(S a, S b) { return a < b; }
    static std::uint64_t min(S a, S b) { return bits_of(b < a ? b : a); }
    static std::uint64_t max(S a, S b) { return bits_of(a < b ? b : a); }
    static std::uint64_t clamp(S x, S lo, S hi) { return bits_of(x < lo ? lo : (hi < x ? hi : x)); }
    static std::uint64_t abs(S a) { return bits_of(a) & ~std::uint64_t(SIGN); }
    static std::uint64_t neg_abs(S a) { return bits_of(a) | SIGN; }
    static std::uint64_t negate(bool m, S a) { return m ? (bits_of(a) ^ SIGN) : bits_of(a); }
    static bool ok(S a) { return a == a; }  // not NaN
    static bool same_value(std::uint64_t e, std::uint64_t g) {
        U ue = U(e), ug = U(g);
        S fe, fg;
        std::memcpy(&fe, &ue, sizeof fe);
        std::memcpy(&fg, &ug, sizeof fg);
        return fe == fg;  // +0 and -0 are the same number
    }
    static bool nt2(S a, S b) { return a == S(0) || b == S(0) || std::signbit(a) != std::signbit(b) || std::isinf(a) || std::isinf(b) || a == b; }
};

#define VX_SEL_OP(NAME, ARITY, EXPR, MODEL, DOMAIN, NT, SAME)                                    \
    struct NAME : OpBase {                                                                       \
        static const int arity = ARITY;                                                          \
        static const char* name() { return #NAME; }                                              \
        template<class V> static auto apply(V a, V b, V c) VX_AUTO(EXPR)                         \
        template<class S> static std::uint64_t model(S a, S b, S c) { (void)a; (void)b; (void)c; return MODEL; } \
        template<class S> static bool in_domain(S a, S b, S c) { (void)a; (void)b; (void)c; return DOMAIN; } \
        template<class S> static bool nontrivial(S a, S b, S c) { (void)a; (void)b; (void)c; return NT; } \
        template<class S> static bool same(std::uint64_t e, std::uint64_t g) { return SAME; }    \
    };

#define BITS_EQ (e == g)
#define VALUE_EQ (M<S>::same_value(e, g))
#define MASKNT (bits_of(c) != 0 || bits_of(a) != bits_of(b))

VX_SEL_OP(blend,      3, avel::blend(mk(c), un(a), un(b)),  (bits_of(c) != 0 ? bits_of(a) : bits_of(b)), true, MASKNT, BITS_EQ)
VX_SEL_OP(keep,       3, avel::keep(mk(c), un(a)),          (bits_of(c) != 0 ? bits_of(a) : 0),          true, MASKNT, BITS_EQ)
VX_SEL_OP(clear,      3, avel::clear(mk(c), un(a)),         (bits_of(c) != 0 ? 0 : bits_of(a)),          true, MASKNT, BITS_EQ)
VX_SEL_OP(negate,     3, avel::negate(mk(c), un(a)),        M<S>::negate(bits_of(c) != 0, a),            true, MASKNT, BITS_EQ)
VX_SEL_OP(blend_inserted_mask,  2, avel::blend(mk_ins(b), un(a), un(b)), (bits_of(b) != 0 ? bits_of(a) : bits_of(b)), true, true, BITS_EQ)
VX_SEL_OP(keep_inserted_mask,   2, avel::keep(mk_ins(b), un(a)),         (bits_of(b) != 0 ? bits_of(a) : 0),          true, true, BITS_EQ)
VX_SEL_OP(clear_inserted_mask,  2, avel::clear(mk_ins(b), un(a)),        (bits_of(b) != 0 ? 0 : bits_of(a)),          true, true, BITS_EQ)
VX_SEL_OP(negate_inserted_mask, 2, avel::negate(mk_ins(b), un(a)),       M<S>::negate(bits_of(b) != 0, a),            true, true, BITS_EQ)
VX_SEL_OP(min,        2, avel::min(un(a), un(b)),           M<S>::min(a, b),  M<S>::ok(a) && M<S>::ok(b), M<S>::nt2(a, b), VALUE_EQ)
VX_SEL_OP(max,        2, avel::max(un(a), un(b)),           M<S>::max(a, b),  M<S>::ok(a) && M<S>::ok(b), M<S>::nt2(a, b), VALUE_EQ)
VX_SEL_OP(minmax_lo,  2, at0(avel::minmax(un(a), un(b))),     M<S>::min(a, b),  M<S>::ok(a) && M<S>::ok(b), M<S>::nt2(a, b), VALUE_EQ)
VX_SEL_OP(minmax_hi,  2, at1(avel::minmax(un(a), un(b))),     M<S>::max(a, b),  M<S>::ok(a) && M<S>::ok(b), M<S>::nt2(a, b), VALUE_EQ)
VX_SEL_OP(clamp,      3, avel::clamp(un(a), un(b), un(c)),  M<S>::clamp(a, b, c), M<S>::ok(a) && M<S>::ok(b) && M<S>::ok(c) && M<S>::lt(b, c), (M<S>::lt(a, b) || M<S>::lt(c, a)), VALUE_EQ)
VX_SEL_OP(abs,        1, avel::abs(un(a)),                  M<S>::abs(a),     true, true, BITS_EQ)
VX_SEL_OP(neg_abs,    1, avel::neg_abs(un(a)),              M<S>::neg_abs(a), true, true, BITS_EQ)
VX_SEL_OP(average,    2, avel::average(un(a), un(b)),       M<S>::average(a, b),  true, M<S>::nt2(a, b), BITS_EQ)
VX_SEL_OP(midpoint,   2, avel::midpoint(un(a), un(b)),      M<S>::midpoint(a, b), true, M<S>::nt2(a, b), BITS_EQ)
VX_SEL_OP(copysign,   2, avel::copysign(un(a), un(b)),      ((bits_of(a) & ~std::uint64_t(M<S>::SIGN)) | (bits_of(b) & M<S>::SIGN)), true, true, BITS_EQ)

// set_bits(mask): all-ones / zero. The scalar form is the template set_bits<T>(bool).
template<class V> inline auto sb(V c) VX_AUTO(avel::set_bits(mk(c)))
template<class S> inline S sb(Sc<S> c) { return avel::set_bits<S>(mk(c)); }
VX_SEL_OP(set_bits,   1, sb(a),                             (bits_of(a) != 0 ? low_mask(nbits<S>()) : 0), true, true, BITS_EQ)
// Vector(mask): 1 / 0 (1.0 / 0.0)
template<class V> inline V from_mask(V c) { return V(mk(c)); }
template<class S> inline S from_mask(Sc<S> c) { return S(mk(c)); }
VX_SEL_OP(vector_from_mask, 1, from_mask(a),                bits_of(S(bits_of(a) != 0 ? 1 : 0)), true, true, BITS_EQ)

}  // namespace osel
}  // namespace vx
#endif
