// t_api2.cpp - C19 (d), second translation unit of the API program: a program with two translation units that include AVEL must link.
// A non-inline function or explicit specialisation defined in a header is emitted by every translation unit and collides here
// ("multiple definition"), even when nobody calls it (seed C19-c).
#include <avel/Avel.hpp>
#include <avel/Aligned_allocator.hpp>
#include <avel/Cache.hpp>

namespace vx {
unsigned second_translation_unit(unsigned x) {
    avel::vec1x32u v{x};
    v += avel::vec1x32u{1u};
    avel::Aligned_allocator<int, 64> al;
    int* p = al.allocate(1);
    avel::prefetch_read<avel::L1_CACHE>(p, 1);
    al.deallocate(p, 1);
    return avel::extract<0>(v);
}
}  // namespace vx
