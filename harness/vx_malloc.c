/* vx_malloc.c - interposed C allocation functions for the C18 explorer (a separate C translation unit: glibc's declarations carry
 * noexcept, so they cannot be redefined in the C++ TU). Untracked callers (stdio, libstdc++ start-up) are served from a bump arena.
 * While tracking is on, every block comes from a small model heap that is reset between transitions; blocks are surrounded by canary
 * red zones, placed at an address whose residue modulo the allocator's alignment is chosen by the explorer, and every free is checked
 * to receive exactly a live tracked pointer. */
#include <stddef.h>
#include <stdint.h>
#include <string.h>
#include <errno.h>

#define PLAIN_SIZE (96u << 20)
#define MODEL_SIZE (8u << 20)
#define RED 128
#define MAXBLK 256
#define CANARY 0xA7

static unsigned char plain_arena[PLAIN_SIZE] __attribute__((aligned(4096)));
static size_t plain_top;
static unsigned char model_arena[MODEL_SIZE] __attribute__((aligned(8192)));
static size_t model_top;

struct vxm_block { unsigned char* user; size_t size; size_t align; int live; int api; };
static struct vxm_block blocks[MAXBLK];
static int nblocks;
static int tracking;
static size_t env_align = 16;   /* alignment A of the allocator under test */
static size_t env_residue;      /* malloc: address mod A; aligned calls: 0 or A (mod 2A) */
static int n_invalid_free, n_double_free, n_calls, n_overflow;

void vxm_track(int on) { tracking = on; }
void vxm_env(size_t align, size_t residue) { env_align = align ? align : 16; env_residue = residue; }
void vxm_reset(void) { model_top = 0; nblocks = 0; n_invalid_free = n_double_free = n_calls = n_overflow = 0; }
int vxm_invalid_frees(void) { return n_invalid_free; }
int vxm_double_frees(void) { return n_double_free; }
int vxm_calls(void) { return n_calls; }
int vxm_nblocks(void) { return nblocks; }
int vxm_live(void) { int i, n = 0; for (i = 0; i < nblocks; ++i) n += blocks[i].live; return n; }
const struct vxm_block* vxm_block_at(int i) { return &blocks[i]; }
/* index of the live block whose user range contains [p, p+len), or -1 */
int vxm_find(const void* p, size_t len) {
    int i;
    const unsigned char* q = (const unsigned char*)p;
    for (i = 0; i < nblocks; ++i)
        if (blocks[i].live && q >= blocks[i].user && q + len <= blocks[i].user + blocks[i].size) return i;
    return -1;
}
/* number of damaged red-zone bytes around all blocks (live or freed) */
int vxm_redzone_damage(void) {
    int i, bad = 0;
    size_t k;
    for (i = 0; i < nblocks; ++i) {
        for (k = 1; k <= RED; ++k) bad += blocks[i].user[-(ptrdiff_t)k] != CANARY;
        for (k = 0; k < RED; ++k) bad += blocks[i].user[blocks[i].size + k] != CANARY;
    }
    return bad;
}

/* plain heap: power-of-two size classes with free lists (the harness' own containers allocate and free all the time) */
struct plain_hdr { size_t size; size_t cls; };
static void* plain_free_list[48];
static size_t class_of(size_t size) { size_t c = 5; while (((size_t)1 << c) < size) ++c; return c; }
static void* plain_alloc(size_t size, size_t align) {
    size_t p;
    if (align <= 16) {
        size_t c = class_of(size ? size : 1);
        unsigned char* q = (unsigned char*)plain_free_list[c];
        if (q) {
            plain_free_list[c] = *(void**)q;
            ((struct plain_hdr*)q)[-1].size = size;
            return q;
        }
        p = (plain_top + sizeof(struct plain_hdr) + 15) & ~(size_t)15;
        if (p + ((size_t)1 << c) > PLAIN_SIZE) return 0;
        ((struct plain_hdr*)(plain_arena + p))[-1].size = size;
        ((struct plain_hdr*)(plain_arena + p))[-1].cls = c;
        plain_top = p + ((size_t)1 << c);
        return plain_arena + p;
    }
    p = (plain_top + sizeof(struct plain_hdr) + align - 1) & ~(align - 1);
    if (p + size > PLAIN_SIZE) return 0;
    ((struct plain_hdr*)(plain_arena + p))[-1].size = size;
    ((struct plain_hdr*)(plain_arena + p))[-1].cls = 0;   /* over-aligned plain blocks are not recycled */
    plain_top = p + size;
    return plain_arena + p;
}
static void plain_release(void* p) {
    size_t c = ((struct plain_hdr*)p)[-1].cls;
    if (c) { *(void**)p = plain_free_list[c]; plain_free_list[c] = p; }
}

static void* model_alloc(size_t size, size_t align, int api) {
    /* api 0: malloc family (16-byte aligned, residue modulo env_align chosen by the explorer); 1: aligned family */
    size_t base, unit, addr;
    if (nblocks >= MAXBLK) return 0;
    ++n_calls;
    unit = api == 0 ? (env_align > 16 ? env_align : 16) : 2 * (align > env_align ? align : env_align);
    base = (model_top + RED + unit - 1) / unit * unit;
    addr = base + (api == 0 ? (env_residue % unit) & ~(size_t)15 : (env_residue ? (align > env_align ? align : env_align) : 0));
    if (api == 1 && (addr & (align - 1))) addr = (addr + align - 1) & ~(align - 1);
    if (addr < model_top + RED) addr += unit;
    if (addr + size + RED > MODEL_SIZE) return 0;
    memset(model_arena + model_top, CANARY, addr + size + RED - model_top);
    blocks[nblocks].user = model_arena + addr;
    blocks[nblocks].size = size;
    blocks[nblocks].align = align;
    blocks[nblocks].live = 1;
    blocks[nblocks].api = api;
    ++nblocks;
    model_top = addr + size + RED;
    return model_arena + addr;
}

void* malloc(size_t size) { return tracking ? model_alloc(size, 16, 0) : plain_alloc(size, 16); }

void free(void* p) {
    int i;
    if (!p) return;
    if ((unsigned char*)p >= model_arena && (unsigned char*)p < model_arena + MODEL_SIZE) {
        for (i = 0; i < nblocks; ++i)
            if (blocks[i].user == (unsigned char*)p) {
                if (!blocks[i].live) ++n_double_free;
                blocks[i].live = 0;
                return;
            }
        ++n_invalid_free;
        return;
    }
    if (!((unsigned char*)p >= plain_arena && (unsigned char*)p < plain_arena + PLAIN_SIZE)) { if (tracking) ++n_invalid_free; return; }
    if (tracking) { ++n_invalid_free; return; }  /* a plain pointer handed to free while the allocator under test runs */
    plain_release(p);
}

void* calloc(size_t n, size_t size) {
    void* p = malloc(n * size);
    if (p) memset(p, 0, n * size);
    return p;
}

void* realloc(void* p, size_t size) {
    void* q;
    size_t old = 0;
    int i;
    if (!p) return malloc(size);
    if ((unsigned char*)p >= model_arena && (unsigned char*)p < model_arena + MODEL_SIZE) {
        for (i = 0; i < nblocks; ++i) if (blocks[i].user == (unsigned char*)p) old = blocks[i].size;
    } else old = ((struct plain_hdr*)p)[-1].size;
    q = malloc(size);
    if (q) memcpy(q, p, old < size ? old : size);
    free(p);
    return q;
}

void* aligned_alloc(size_t align, size_t size) { return tracking ? model_alloc(size, align, 1) : plain_alloc(size, align < 16 ? 16 : align); }
void* memalign(size_t align, size_t size) { return aligned_alloc(align, size); }
int posix_memalign(void** out, size_t align, size_t size) {
    void* p = aligned_alloc(align, size);
    if (!p) return ENOMEM;
    *out = p;
    return 0;
}
void* valloc(size_t size) { return aligned_alloc(4096, size); }
size_t malloc_usable_size(void* p) { (void)p; return 0; }
