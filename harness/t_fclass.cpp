// t_fclass.cpp - C13: fpclassify / isnan / isinf / isfinite / isnormal / signbit and the quiet comparisons.

#include "ops_fclass.hpp"

namespace vx {
using namespace ofc;

template<class V>
struct PerType {
    typedef typename V::scalar S;
    static void run() {
        const bool f32 = sizeof(S) == 4;
        std::vector<S> K = alphabet_KF<S>();
        std::vector<S> L = as_scalars<S>(f32 ? alphabet_F32L() : alphabet_F64L());
        unary(K, std::integral_constant<bool, sizeof(S) == 4>());
        DomainOf<S, DomProd2<S> > d2 = erase<S>(DomProd2<S>(L, L, f32 ? "F32L x F32L" : "F64L x F64L"));
        explore<V, isgreater>(d2, &K);
        explore<V, isgreaterequal>(d2, &K);
        explore<V, isless>(d2, &K);
        explore<V, islessequal>(d2, &K);
        explore<V, islessgreater>(d2, &K);
        explore<V, isunordered>(d2, &K);
    }
    static void unary_ops(const DomainS<S>& d, const std::vector<S>& K) {
        explore<V, fpclassify>(d, &K);
        explore<V, isnan>(d, &K);
        explore<V, isinf>(d, &K);
        explore<V, isfinite>(d, &K);
        explore<V, isnormal>(d, &K);
        explore<V, signbit>(d, &K);
    }
    static void unary(const std::vector<S>& K, std::true_type) {
#ifdef VX_EXH_QUICK
        const bool exhaustive = exh32() || (!opt().thorough && V::width == max_width<S>::value);
#else
        const bool exhaustive = exh32();
#endif
        if (exhaustive) unary_ops(erase<S>(DomFull1<S>()), K);
        else { std::vector<std::uint64_t> u = alphabet_F32L(), h = alphabet_F32H(); u.insert(u.end(), h.begin(), h.end()); sort_unique(u); unary_ops(erase<S>(DomList1<S>(as_scalars<S>(u), "F32L u F32H")), K); }
    }
    static void unary(const std::vector<S>& K, std::false_type) { unary_ops(erase<S>(DomList1<S>(as_scalars<S>(alphabet_F64S(opt().thorough)), "F64S")), K); }
};

}  // namespace vx

int main(int argc, char** argv) {
    if (int rc = vx::parse_args(argc, argv)) return rc;
    vx::for_each_float_type<vx::PerType>();
    vx::for_each_float_scalar<vx::PerType>();
    return vx::write_results("t_fclass", vx::part_name());
}
