// t_scalar.cpp - C16: every scalar overload of avel/Scalar.hpp equals any lane of the corresponding vector operation.
// Differential: for a vector type V the *reference* of an operation is AVEL's own scalar overload on the lane's inputs
// (Diff<Op>); the scalar overload itself is checked against the plain C++ model through the Sc<S> subject.
#include "vx_bitmodels.hpp"
#if VX_PART < 100
#include "ops_bit.hpp"
#include "ops_select.hpp"
#include "ops_shift.hpp"
#else
#include "vx_float.hpp"
#include "ops_select.hpp"
#include "ops_fround.hpp"
#include "ops_fmanip.hpp"
#include "ops_fclass.hpp"
#endif

namespace vx {

// reference = the scalar overload (when AVEL provides one for exactly this element type)
template<class Op>
struct Diff : Op {
    static const char* name() {
        static std::string n = std::string("lane_vs_scalar:") + Op::name();
        return n.c_str();
    }
    template<class S> static std::uint64_t model(S a, S b, S c) {
        Sc<S> sa = {a}, sb = {b}, sc = {c};
        std::uint64_t out[1];
        result_bits(Op::apply(sa, sb, sc), out);
        return out[0];
    }
};

template<class V, class Op, bool OK = has_op<Op, Sc<typename V::scalar> >::value>
struct RunDiff {
    static void go(const DomainS<typename V::scalar>& d, const std::vector<typename V::scalar>* K) { explore<V, Diff<Op> >(d, K); }
};
template<class V, class Op>
struct RunDiff<V, Op, false> {
    static void go(const DomainS<typename V::scalar>&, const std::vector<typename V::scalar>*) {}
};
// vector subject: every lane against the scalar overload; scalar subject: only the mixed-signedness cmp_* functions (against exact integers)
template<class V> struct is_sc : std::false_type {};
template<class S> struct is_sc<Sc<S> > : std::true_type {};
template<class V, class Op, bool SC = is_sc<V>::value>
struct Run { static void go(const DomainS<typename V::scalar>& d, const std::vector<typename V::scalar>* K) { RunDiff<V, Op>::go(d, K); } };
template<class V, class Op>
struct Run<V, Op, true> { static void go(const DomainS<typename V::scalar>&, const std::vector<typename V::scalar>*) {} };  // scalar vs the C++ model is the business of C06/C07/C10..C13

#if VX_PART < 100
// rotations by a per-lane / scalar amount: amount carried in b
struct rotl_by : OpBase {
    static const int arity = 2;
    static const char* name() { return "rotl"; }
    template<class V> static auto apply(V a, V b, V) VX_AUTO(avel::rotl(a, b))
    template<class S> static S apply(Sc<S> a, Sc<S> b, Sc<S>) { return avel::rotl(a.v, (long long)(bits_of(b.v))); }
    template<class S> static std::uint64_t model(S a, S b, S) { return m_rotl(a, unsigned(bits_of(b) & (nbits<S>() - 1))); }
};
struct rotr_by : OpBase {
    static const int arity = 2;
    static const char* name() { return "rotr"; }
    template<class V> static auto apply(V a, V b, V) VX_AUTO(avel::rotr(a, b))
    template<class S> static S apply(Sc<S> a, Sc<S> b, Sc<S>) { return avel::rotr(a.v, (long long)(bits_of(b.v))); }
    template<class S> static std::uint64_t model(S a, S b, S) { return m_rotr(a, unsigned(bits_of(b) & (nbits<S>() - 1))); }
};

// mixed-signedness comparisons of the scalar headers: a is the unsigned operand's bits, b the signed operand's bits
typedef __int128 i128x;
#define VX_MIXCMP(NAME, FN, UI_EXPR, IU_EXPR)                                                         \
    struct NAME##_u_i : OpBase {                                                                      \
        static const int arity = 2;                                                                   \
        static const char* name() { return #FN "(unsigned, signed)"; }                                \
        template<class S> static auto apply(Sc<S> a, Sc<S> b, Sc<S>) VX_AUTO(avel::FN(typename uint_of<S>::type(bits_of(a.v)), typename sint_of<S>::type(bits_of(b.v)))) \
        template<class S> static std::uint64_t model(S a, S b, S) { i128x x = i128x(bits_of(a)), y = i128x(typename sint_of<S>::type(bits_of(b))); return (UI_EXPR) ? 1 : 0; } \
        template<class S> static bool nontrivial(S, S b, S) { return typename sint_of<S>::type(bits_of(b)) < 0 || (bits_of(b) >> (nbits<S>() - 1)); } \
    };                                                                                                \
    struct NAME##_i_u : OpBase {                                                                      \
        static const int arity = 2;                                                                   \
        static const char* name() { return #FN "(signed, unsigned)"; }                                \
        template<class S> static auto apply(Sc<S> a, Sc<S> b, Sc<S>) VX_AUTO(avel::FN(typename sint_of<S>::type(bits_of(b.v)), typename uint_of<S>::type(bits_of(a.v)))) \
        template<class S> static std::uint64_t model(S a, S b, S) { i128x x = i128x(bits_of(a)), y = i128x(typename sint_of<S>::type(bits_of(b))); return (IU_EXPR) ? 1 : 0; } \
        template<class S> static bool nontrivial(S a, S, S) { return (bits_of(a) >> (nbits<S>() - 1)) != 0; } \
    };
VX_MIXCMP(cmpeq, cmp_equal, x == y, y == x)
VX_MIXCMP(cmpne, cmp_not_equal, x != y, y != x)
VX_MIXCMP(cmplt, cmp_less, x < y, y < x)
VX_MIXCMP(cmple, cmp_less_equal, x <= y, y <= x)
VX_MIXCMP(cmpgt, cmp_greater, x > y, y > x)
VX_MIXCMP(cmpge, cmp_greater_equal, x >= y, y >= x)

template<class V>
struct PerType {
    typedef typename V::scalar S;
    static void run() {
        const unsigned B = 8 * sizeof(S);
        std::vector<S> K = as_scalars<S>(alphabet_K(B));
        std::vector<S> L = as_scalars<S>(alphabet_L(B, B == 32 ? true : opt().thorough));
        run_domains(K, L, std::integral_constant<unsigned, 8 * sizeof(S)>());
    }
    static void unary(const DomainS<S>& d1, const std::vector<S>& K) {
        using namespace obit;
        Run<V, popcount>::go(d1, &K); Run<V, countl_zero>::go(d1, &K); Run<V, countl_one>::go(d1, &K); Run<V, countr_zero>::go(d1, &K);
        Run<V, countr_one>::go(d1, &K); Run<V, bit_width>::go(d1, &K); Run<V, bit_floor>::go(d1, &K); Run<V, bit_ceil>::go(d1, &K);
        Run<V, has_single_bit>::go(d1, &K); Run<V, byteswap>::go(d1, &K); Run<V, countl_sign>::go(d1, &K);
        Run<V, osel::abs>::go(d1, &K); Run<V, osel::neg_abs>::go(d1, &K); Run<V, osel::set_bits>::go(d1, &K);
    }
    static void binary(const DomainS<S>& d2, const std::vector<S>& K) {
        using namespace osel;
        Run<V, osel::min>::go(d2, &K); Run<V, osel::max>::go(d2, &K); Run<V, minmax_lo>::go(d2, &K); Run<V, minmax_hi>::go(d2, &K);
        Run<V, average>::go(d2, &K); Run<V, midpoint>::go(d2, &K);
        mixed(d2, std::integral_constant<bool, is_sc<V>::value && std::is_unsigned<S>::value>());
    }
    static void mixed(const DomainS<S>& d2, std::true_type) {
        explore<V, cmpeq_u_i>(d2, 0); explore<V, cmpeq_i_u>(d2, 0); explore<V, cmpne_u_i>(d2, 0); explore<V, cmpne_i_u>(d2, 0);
        explore<V, cmplt_u_i>(d2, 0); explore<V, cmplt_i_u>(d2, 0); explore<V, cmple_u_i>(d2, 0); explore<V, cmple_i_u>(d2, 0);
        explore<V, cmpgt_u_i>(d2, 0); explore<V, cmpgt_i_u>(d2, 0); explore<V, cmpge_u_i>(d2, 0); explore<V, cmpge_i_u>(d2, 0);
    }
    static void mixed(const DomainS<S>&, std::false_type) {}
    static void ternary(const DomainS<S>& d3, const std::vector<S>& K) {
        using namespace osel;
        Run<V, blend>::go(d3, &K); Run<V, keep>::go(d3, &K); Run<V, osel::clear>::go(d3, &K); Run<V, negate>::go(d3, &K); Run<V, clamp>::go(d3, &K);
    }
    static void rot(const std::vector<S>& vals, const std::vector<S>& K) {
        std::vector<std::uint64_t> r;
        const unsigned B = 8 * sizeof(S);
        for (unsigned s = 0; s <= 2 * B + 1 && s <= (low_mask(B) >> 1); ++s) r.push_back(s);
        std::vector<S> amts = as_scalars<S>(r);
        DomainOf<S, DomProd2<S> > d = erase<S>(DomProd2<S>(vals, amts, "values x rotation amounts 0..2*bits+1").swapped());
        Run<V, rotl_by>::go(d, &K); Run<V, rotr_by>::go(d, &K);
        // one scalar amount for the whole vector: rotl(v, long long) against rotl(x, long long) (seed C16-b changed only this overload)
        DomainOf<S, DomUniform<S> > du = erase<S>(DomUniform<S>(vals, unsigned(rot_table(B).size()), "values x scalar rotation amounts (0..2*bits+1, k*bits+r, negative, +-2^31, +-2^62, LLONG_MIN/MAX)"));
        Run<V, rotl_scalar>::go(du, 0); Run<V, rotr_scalar>::go(du, 0);
    }
    static void run_domains(const std::vector<S>& K, const std::vector<S>&, std::integral_constant<unsigned, 8>) {
        unary(erase<S>(DomFull1<S>()), K); binary(erase<S>(DomFull2<S>()), K); ternary(erase<S>(DomFull3<S>()), K);
        std::vector<S> all; for (unsigned i = 0; i < 256; ++i) all.push_back(S(i)); rot(all, K);
    }
    static void run_domains(const std::vector<S>& K, const std::vector<S>& L, std::integral_constant<unsigned, 16>) {
        unary(erase<S>(DomFull1<S>()), K);
        if (exh16()) binary(erase<S>(DomFull2<S>()), K); else binary(erase<S>(DomCross2<S>(L, "D16 x L16 union L16 x D16")), K);
        ternary(erase<S>(DomProd3<S>(L, L, L, "L16^3")), K);
        rot(L, K);
    }
    static void run_domains(const std::vector<S>& K, const std::vector<S>& L, std::integral_constant<unsigned, 32>) {
        if (exh32()) unary(erase<S>(DomFull1<S>()), K); else unary(erase<S>(DomList1<S>(L, "L32")), K);
        binary(erase<S>(DomProd2<S>(L, L, "L32 x L32")), K); ternary(erase<S>(DomProd3<S>(K, K, K, "K32^3")), K); rot(L, K);
    }
    static void run_domains(const std::vector<S>& K, const std::vector<S>& L, std::integral_constant<unsigned, 64>) {
        unary(erase<S>(DomList1<S>(L, "L64")), K); binary(erase<S>(DomProd2<S>(L, L, "L64 x L64")), K); ternary(erase<S>(DomProd3<S>(K, K, K, "K64^3")), K); rot(L, K);
    }
};
#else
struct sqrt_op : OpBase {
    static const int arity = 1;
    static const char* name() { return "sqrt"; }
    template<class V> static auto apply(V a, V, V) VX_AUTO(avel::sqrt(un(a)))
    template<class S> static std::uint64_t model(S a, S, S) { volatile S x = a; return bits_of(S(std::sqrt(x))); }
    template<class S> static bool same(std::uint64_t e, std::uint64_t g) { return same_bits_nan<S>(e, g); }
};

template<class V>
struct PerType {
    typedef typename V::scalar S;
    static void run() {
        const bool f32 = sizeof(S) == 4;
        std::vector<S> K = alphabet_KF<S>();
        std::vector<S> L = as_scalars<S>(f32 ? alphabet_F32L() : alphabet_F64L());
        std::vector<S> U;
        if (f32) { std::vector<std::uint64_t> u = alphabet_F32L(), h = alphabet_F32H(); u.insert(u.end(), h.begin(), h.end()); sort_unique(u); U = as_scalars<S>(u); }
        else U = as_scalars<S>(alphabet_F64S(opt().thorough));
        DomainOf<S, DomList1<S> > d1 = erase<S>(DomList1<S>(U, f32 ? "F32L u F32H" : "F64S"));
        DomainOf<S, DomProd2<S> > d2 = erase<S>(DomProd2<S>(L, L, f32 ? "F32L x F32L" : "F64L x F64L"));
        std::vector<S> T = K;
        for (std::size_t i = 0; i < L.size(); i += (f32 ? 64 : 16)) T.push_back(L[i]);
        DomainOf<S, DomProd3<S> > d3 = erase<S>(DomProd3<S>(T, T, T, "KF-based triples"));
        Run<V, ofr::ceil>::go(d1, &K); Run<V, ofr::floor>::go(d1, &K); Run<V, ofr::trunc>::go(d1, &K); Run<V, ofr::round>::go(d1, &K);
        Run<V, ofr::nearbyint>::go(d1, &K); Run<V, ofr::rint>::go(d1, &K); Run<V, sqrt_op>::go(d1, &K);
        Run<V, ofm::frexp_significand>::go(d1, &K); Run<V, ofm::frexp_exponent>::go(d1, &K); Run<V, ofm::ilogb>::go(d1, &K); Run<V, ofm::logb>::go(d1, &K); Run<V, ofm::frac>::go(d1, &K);
        Run<V, ofm::fmax>::go(d2, &K); Run<V, ofm::fmin>::go(d2, &K); Run<V, ofm::fdim>::go(d2, &K);
        Run<V, ofc::fpclassify>::go(d1, &K); Run<V, ofc::isnan>::go(d1, &K); Run<V, ofc::isinf>::go(d1, &K); Run<V, ofc::isfinite>::go(d1, &K); Run<V, ofc::isnormal>::go(d1, &K); Run<V, ofc::signbit>::go(d1, &K);
        Run<V, ofc::isgreater>::go(d2, &K); Run<V, ofc::isgreaterequal>::go(d2, &K); Run<V, ofc::isless>::go(d2, &K); Run<V, ofc::islessequal>::go(d2, &K); Run<V, ofc::islessgreater>::go(d2, &K); Run<V, ofc::isunordered>::go(d2, &K);
        Run<V, osel::min>::go(d2, &K); Run<V, osel::max>::go(d2, &K); Run<V, osel::minmax_lo>::go(d2, &K); Run<V, osel::minmax_hi>::go(d2, &K); Run<V, osel::copysign>::go(d2, &K);
        Run<V, osel::abs>::go(d1, &K); Run<V, osel::neg_abs>::go(d1, &K);
        Run<V, osel::blend>::go(d3, &K); Run<V, osel::keep>::go(d3, &K); Run<V, osel::clear>::go(d3, &K); Run<V, osel::negate>::go(d3, &K); Run<V, osel::clamp>::go(d3, &K);
        std::vector<S> E = as_scalars<S>(ofm_exp(8 * sizeof(S)));
        DomainOf<S, DomProd2<S> > de = erase<S>(DomProd2<S>(L, E, "L x EXP").swapped());
        Run<V, ofm::ldexp>::go(de, 0); Run<V, ofm::scalbn>::go(de, 0);
    }
    static std::vector<std::uint64_t> ofm_exp(unsigned lane_bits) {
        std::vector<std::uint64_t> out;
        for (int e = -1200; e <= 1200; e += 7) out.push_back(std::uint64_t((long long)e) & low_mask(lane_bits));
        const long long big[] = {-2147483647ll - 1, 2147483647ll, 65536, -65536, 1, -1, 0, 127, 128, -126, -127, -149, -150, 1023, 1024, -1022, -1074, -1075};
        for (unsigned i = 0; i < sizeof(big) / sizeof(big[0]); ++i) out.push_back(std::uint64_t(big[i]) & low_mask(lane_bits));
        sort_unique(out);
        return out;
    }
};
#endif

}  // namespace vx

int main(int argc, char** argv) {
    if (int rc = vx::parse_args(argc, argv)) return rc;
#if VX_PART < 100
    vx::obit::self_check();
    vx::for_each_int_scalar<vx::PerType>();
    vx::for_each_int_type<vx::PerType>();
#else
    vx::for_each_float_scalar<vx::PerType>();
    vx::for_each_float_type<vx::PerType>();
#endif
    return vx::write_results("t_scalar", vx::part_name());
}
