// t_cmp.cpp - C02: vector comparisons yield the exact lane-wise truth mask (integers and floats).
#include "vx_explore.hpp"

namespace vx {

template<class S, bool FLT = std::is_floating_point<S>::value> struct cmp_nt;
template<class S> struct cmp_nt<S, false> {
    static bool f(S a, S b) {
        const unsigned bits = 8 * sizeof(S);
        std::uint64_t ua = bits_of(a), ub = bits_of(b);
        if (((ua ^ ub) >> (bits - 1)) & 1) return true;                              // differ in sign / top bit
        if ((ua >> (bits / 2)) == (ub >> (bits / 2)) && ua != ub) return true;       // agree in the upper half, differ in the lower
        return false;
    }
};
template<class S> struct cmp_nt<S, true> {
    static bool f(S a, S b) { return a != a || b != b || a == S(0) || b == S(0) || std::signbit(a) != std::signbit(b); }
};

#define VX_CMP_OP(NAME, EXPR, MODEL)                                                       \
    struct NAME : OpBase {                                                                  \
        static const int arity = 2;                                                         \
        static const char* name() { return #NAME; }                                         \
        template<class V> static auto apply(V a, V b, V) VX_AUTO(EXPR)                      \
        template<class S> static std::uint64_t model(S a, S b, S) { return (MODEL) ? 1 : 0; } \
        template<class S> static bool nontrivial(S a, S b, S) { return cmp_nt<S>::f(a, b); } \
    };

VX_CMP_OP(eq, a == b, a == b)
VX_CMP_OP(ne, a != b, a != b)
VX_CMP_OP(lt, a < b, a < b)
VX_CMP_OP(le, a <= b, a <= b)
VX_CMP_OP(gt, a > b, a > b)
VX_CMP_OP(ge, a >= b, a >= b)

// the same masks observed through the Vector(mask) conversion: 1 / 0 (1.0 / 0.0) per lane
#define VX_CMPV_OP(NAME, EXPR, MODEL)                                                       \
    struct NAME : OpBase {                                                                  \
        static const int arity = 2;                                                         \
        static const char* name() { return #NAME; }                                         \
        template<class V> static auto apply(V a, V b, V) VX_AUTO(V(EXPR))                   \
        template<class S> static std::uint64_t model(S a, S b, S) { return bits_of(S((MODEL) ? 1 : 0)); } \
        template<class S> static bool nontrivial(S a, S b, S) { return cmp_nt<S>::f(a, b); } \
    };
VX_CMPV_OP(lt_as_vector, a < b, a < b)
VX_CMPV_OP(ne_as_vector, a != b, a != b)

template<class V>
inline void run_ops(const DomainS<typename V::scalar>& d2, const std::vector<typename V::scalar>& K) {
    explore<V, eq>(d2, &K);
    explore<V, ne>(d2, &K);
    explore<V, lt>(d2, &K);
    explore<V, le>(d2, &K);
    explore<V, gt>(d2, &K);
    explore<V, ge>(d2, &K);
    explore<V, lt_as_vector>(d2, &K);
    explore<V, ne_as_vector>(d2, &K);
}

template<class V, unsigned PART = VX_PART>
struct Plan;

template<class V> struct Plan<V, 8> {
    typedef typename V::scalar S;
    static void run() { run_ops<V>(erase<S>(DomFull2<S>()), as_scalars<S>(alphabet_K(8))); }
};
template<class V> struct Plan<V, 16> {
    typedef typename V::scalar S;
    static void run() {
        std::vector<S> K = as_scalars<S>(alphabet_K(16));
        if (exh16()) run_ops<V>(erase<S>(DomFull2<S>()), K);
        else run_ops<V>(erase<S>(DomCross2<S>(as_scalars<S>(alphabet_L(16, false)), "D16 x L16 union L16 x D16")), K);
    }
};
template<class V> struct Plan<V, 32> {
    typedef typename V::scalar S;
    static void run() {
        std::vector<S> L = as_scalars<S>(alphabet_L(32, true));
        run_ops<V>(erase<S>(DomProd2<S>(L, L, "L32 x L32")), as_scalars<S>(alphabet_K(32)));
    }
};
template<class V> struct Plan<V, 64> {
    typedef typename V::scalar S;
    static void run() {
        std::vector<S> L = as_scalars<S>(alphabet_L(64, opt().thorough));
        run_ops<V>(erase<S>(DomProd2<S>(L, L, opt().thorough ? "L64(full) x L64(full)" : "L64(small) x L64(small)")), as_scalars<S>(alphabet_K(64)));
    }
};
template<class V> struct Plan<V, 132> {
    typedef typename V::scalar S;
    static void run() {
        std::vector<S> L = as_scalars<S>(alphabet_F32L());
        run_ops<V>(erase<S>(DomProd2<S>(L, L, "F32L x F32L")), alphabet_KF<S>());
    }
};
template<class V> struct Plan<V, 164> {
    typedef typename V::scalar S;
    static void run() {
        std::vector<S> L = as_scalars<S>(alphabet_F64L());
        run_ops<V>(erase<S>(DomProd2<S>(L, L, "F64L x F64L")), alphabet_KF<S>());
    }
};

template<class V>
struct PerType {
    static void run() { Plan<V>::run(); }
};

}  // namespace vx

int main(int argc, char** argv) {
    if (int rc = vx::parse_args(argc, argv)) return rc;
#if VX_PART < 100
    vx::for_each_int_type<vx::PerType>();
#else
    vx::for_each_float_type<vx::PerType>();
#endif
    return vx::write_results("t_cmp", vx::part_name());
}
