// vx_explore.hpp - explorer A: exhaustive / alphabet enumeration of per-lane operations against a
// reference model, with lane-placement pass (DESIGN.md sections 2A, 4, 5).
//
// Only two small functions are instantiated per (vector type, operation): the call of the AVEL
// operation on one vector (impl_vec) and the reference model over a block (model_block). All the
// enumeration / comparison / bookkeeping code is instantiated once per element type.
#ifndef VX_EXPLORE_HPP
#define VX_EXPLORE_HPP

#include "vx_core.hpp"
#include "vx_domains.hpp"

namespace vx {

template<class S, bool FLT = std::is_floating_point<S>::value>
struct fills_impl;
template<class S>
struct fills_impl<S, false> {
    static std::vector<S> make() {
        // pairs (fa, fb): zeros, all-ones, MIN/MIN, MAX/MAX, MIN/-1 (division overflow), 1/0 (zero divisor)
        std::vector<S> v;
        typedef typename uint_of<S>::type U;
        const unsigned bits = 8 * sizeof(S);
        U top = U(U(1) << (bits - 1));
        U raw[] = {U(0), U(0), U(~U(0)), U(~U(0)), top, top, U(top - 1), U(top - 1), top, U(~U(0)), U(1), U(0)};
        for (unsigned i = 0; i < sizeof(raw) / sizeof(raw[0]); ++i) {
            S s;
            std::memcpy(&s, &raw[i], sizeof s);
            v.push_back(s);
        }
        return v;
    }
};
template<class S>
struct fills_impl<S, true> {
    static std::vector<S> make() {
        // pairs: zeros, NaN/NaN, +inf/-inf, 1/0 (division by zero next door), max/max, min-subnormal/min-subnormal, -0/-0
        std::vector<S> v;
        const S nan = std::numeric_limits<S>::quiet_NaN(), inf = std::numeric_limits<S>::infinity();
        S raw[] = {S(0), S(0), nan, nan, inf, -inf, S(1), S(0), std::numeric_limits<S>::max(), std::numeric_limits<S>::max(),
                   std::numeric_limits<S>::denorm_min(), std::numeric_limits<S>::denorm_min(), -S(0), -S(0)};
        for (unsigned i = 0; i < sizeof(raw) / sizeof(raw[0]); ++i) v.push_back(raw[i]);
        return v;
    }
};
template<class S>
inline const std::vector<S>& default_fills() {
    static std::vector<S> v = fills_impl<S>::make();
    return v;
}

// every Op derives from this for defaults
struct OpBase {
    template<class S> static bool in_domain(S, S, S) { return true; }
    // tuples that may not even sit in a neighbouring lane (the statement says nothing about them): replaced by (1,1,1)
    template<class S> static bool may_execute(S, S, S) { return true; }
    template<class S> static bool nontrivial(S, S, S) { return true; }
    template<class S> static bool same(std::uint64_t e, std::uint64_t g) { return e == g; }
    // per-tuple comparison flag computed by the model side (e.g. "the sign of a zero result is free"); see flagged ops
    template<class S> static unsigned flag(S, S, S) { return 0; }
    template<class S> static const std::vector<S>& fills() { return default_fills<S>(); }
    static const bool lane_pass = true;
};

#define VX_AUTO(...) -> decltype(__VA_ARGS__) { return __VA_ARGS__; }

template<class Op, class V, class = void>
struct has_op : std::false_type {};
template<class Op, class V>
struct has_op<Op, V, typename std::enable_if<(sizeof(Op::apply(std::declval<V>(), std::declval<V>(), std::declval<V>())) > 0)>::type> : std::true_type {};

template<class T, std::uint32_t N>
inline void result_bits(const avel::Vector<T, N>& r, std::uint64_t* out) {
    T tmp[N];
    to_lanes(r, tmp);
    for (unsigned i = 0; i < N; ++i) out[i] = bits_of(tmp[i]);
}
template<class T, std::uint32_t N>
inline void result_bits(const avel::Vector_mask<T, N>& r, std::uint64_t* out) {
    std::uint8_t tmp[N];
    mask_lanes(r, tmp);
    for (unsigned i = 0; i < N; ++i) out[i] = tmp[i];
}

// scalar results (the scalar overloads): arithmetic value or bool
template<class T>
inline typename std::enable_if<std::is_arithmetic<T>::value>::type result_bits(T r, std::uint64_t* out) {
    out[0] = std::is_same<T, bool>::value ? std::uint64_t(r ? 1 : 0) : bits_of(r);
}
template<class S>
inline void result_bits(Sc<S> r, std::uint64_t* out) { out[0] = bits_of(r.v); }

template<class S>
inline std::uint64_t tuple_hash(int arity, S a, S b, S c) {
    std::uint64_t h = mix(bits_of(a));
    if (arity > 1) h = hcomb(h, bits_of(b));
    if (arity > 2) h = hcomb(h, bits_of(c));
    return h;
}

// type-erased tuple domain
template<class S>
struct DomainS {
    virtual ~DomainS() {}
    virtual std::uint64_t size() const = 0;
    virtual void fill(std::uint64_t start, unsigned n, S* a, S* b, S* c) const = 0;
    virtual std::string name() const = 0;
};
template<class S, class Dom>
struct DomainOf : DomainS<S> {
    Dom d;
    explicit DomainOf(const Dom& dd) : d(dd) {}
    std::uint64_t size() const { return d.size(); }
    __attribute__((noinline, target("avx2"), optimize("O3"))) void fill(std::uint64_t start, unsigned n, S* a, S* b, S* c) const {
        for (unsigned i = 0; i < n; ++i) d.get(start + i, a[i], b[i], c[i]);
    }
    std::string name() const { return d.name(); }
};
template<class S, class Dom>
inline DomainOf<S, Dom> erase(const Dom& d) { return DomainOf<S, Dom>(d); }

static const unsigned VX_BLK = 512;

template<class S>
struct Buffers {
    S a[VX_BLK], b[VX_BLK], c[VX_BLK];
    std::uint64_t e[VX_BLK], g[VX_BLK];
    bool dom[VX_BLK], nt[VX_BLK];
    unsigned char flag[VX_BLK];
};

template<class S>
struct OpVT {
    std::string name;
    int arity;
    bool lane_pass;
    unsigned W;
    void (*model_block)(Buffers<S>&, unsigned n);
    void (*impl_vec)(Buffers<S>&, unsigned off);
    bool (*same)(std::uint64_t, std::uint64_t, unsigned);
};

// The reference side is compiled for SSE4.1 whatever the configuration under check selects (this CPU has it): libm's
// ceil/floor/trunc/rint then expand to a single rounding instruction instead of a call, which makes exhaustive float passes affordable.
template<class S, class Op>
__attribute__((noinline, target("avx2"), optimize("O3"))) void model_block_fn(Buffers<S>& B, unsigned n) {
    for (unsigned i = 0; i < n; ++i) {
        if (!Op::may_execute(B.a[i], B.b[i], B.c[i])) { B.a[i] = S(1); B.b[i] = S(1); B.c[i] = S(1); B.dom[i] = false; B.e[i] = 0; B.nt[i] = false; continue; }
        B.dom[i] = Op::in_domain(B.a[i], B.b[i], B.c[i]);
        B.e[i] = B.dom[i] ? Op::model(B.a[i], B.b[i], B.c[i]) : 0;
        B.nt[i] = B.dom[i] && Op::nontrivial(B.a[i], B.b[i], B.c[i]);
        B.flag[i] = (unsigned char)(B.dom[i] ? Op::flag(B.a[i], B.b[i], B.c[i]) : 0);
    }
}

template<class S, class Op, class = void>
struct same_sel { static bool f(std::uint64_t e, std::uint64_t g, unsigned) { return Op::template same<S>(e, g); } };
template<class S, class Op>
struct same_sel<S, Op, typename std::enable_if<(sizeof(Op::template same_f<S>(0, 0, 0u)) > 0)>::type> {
    static bool f(std::uint64_t e, std::uint64_t g, unsigned fl) { return Op::template same_f<S>(e, g, fl); }
};

// appended to every operation name of a pass (e.g. "@upward" while a rounding mode is in force)
inline std::string& name_suffix() { static std::string s; return s; }

// Operand provenance: a 128-bit (256-bit) vector may be the low part of a wider register whose upper part holds something else, e.g. after
// _mm256_castsi256_si128 on a live 256-bit value. Code that widens an operand with _mm512_castsi128_si512 and then looks at the upper lanes reads that
// garbage (seed C02-d). With AVX2 (AVX-512F) available the operands handed to the operation are therefore the low parts of registers with a non-zero
// pattern above them; the empty asm keeps the compiler from proving otherwise.
template<class P> inline P dirty_upper(P x, int) { return x; }
#if defined(__AVX512F__)
inline __m256i dirty_upper(__m256i x, int pat) { __m512i w = _mm512_inserti64x4(_mm512_set1_epi32(pat), x, 0); __asm__ __volatile__("" : "+v"(w)); return _mm512_castsi512_si256(w); }
inline __m256 dirty_upper(__m256 x, int pat) { return _mm256_castsi256_ps(dirty_upper(_mm256_castps_si256(x), pat)); }
inline __m256d dirty_upper(__m256d x, int pat) { return _mm256_castsi256_pd(dirty_upper(_mm256_castpd_si256(x), pat)); }
inline __m128i dirty_upper(__m128i x, int pat) { __m512i w = _mm512_inserti32x4(_mm512_set1_epi32(pat), x, 0); __asm__ __volatile__("" : "+v"(w)); return _mm512_castsi512_si128(w); }
inline __m128 dirty_upper(__m128 x, int pat) { return _mm_castsi128_ps(dirty_upper(_mm_castps_si128(x), pat)); }
inline __m128d dirty_upper(__m128d x, int pat) { return _mm_castsi128_pd(dirty_upper(_mm_castpd_si128(x), pat)); }
#elif defined(__AVX2__)
inline __m128i dirty_upper(__m128i x, int pat) { __m256i w = _mm256_inserti128_si256(_mm256_set1_epi32(pat), x, 0); __asm__ __volatile__("" : "+x"(w)); return _mm256_castsi256_si128(w); }
inline __m128 dirty_upper(__m128 x, int pat) { return _mm_castsi128_ps(dirty_upper(_mm_castps_si128(x), pat)); }
inline __m128d dirty_upper(__m128d x, int pat) { return _mm_castsi128_pd(dirty_upper(_mm_castpd_si128(x), pat)); }
#endif
// a different pattern above each operand (equal garbage would compare equal and hide the leak)
template<class V, bool VEC = (V::width > 1)> struct Dirty { static V f(V v, int pat) { return V{dirty_upper(avel::decay(v), pat)}; } };
template<class V> struct Dirty<V, false> { static V f(V v, int) { return v; } };

template<class V, class Op>
VX_NOINLINE void impl_vec_fn(Buffers<typename V::scalar>& B, unsigned off) {
    V va = Dirty<V>::f(from_lanes<V>(B.a + off), 0x1AA5C33C), vb = Dirty<V>::f(from_lanes<V>(B.b + off), 0x7C3C5AA5), vc = Dirty<V>::f(from_lanes<V>(B.c + off), int(0x93A55A3Cu));
    result_bits(Op::apply(va, vb, vc), B.g + off);
}

template<class S>
struct RunnerS {
    Buffers<S> B;
    S ta[VX_BLK], tb[VX_BLK], tc[VX_BLK];  // staging for rotated packings
    OpVT<S> vt;
    Stat* st;
    volatile std::uint64_t cur;
    volatile unsigned cur_off;

    void impl_block(unsigned n) {
        const unsigned W = vt.W;
        if (W == 1) {
            for (unsigned i = 0; i < n; ++i) {
                if (!B.dom[i]) { B.g[i] = 0; continue; }
                cur_off = i;
                vt.impl_vec(B, i);
            }
        } else {
            for (unsigned off = 0; off < n; off += W) { cur_off = off; vt.impl_vec(B, off); }
        }
    }

    std::string args_json(unsigned base) {
        const unsigned W = vt.W;
        std::string s = "[" + jstr(hex_bytes(B.a + base, sizeof(S) * W));
        if (vt.arity > 1) s += "," + jstr(hex_bytes(B.b + base, sizeof(S) * W));
        if (vt.arity > 2) s += "," + jstr(hex_bytes(B.c + base, sizeof(S) * W));
        return s + "]";
    }

    std::string witness_json(unsigned i, const char* phase) {
        const unsigned W = vt.W;
        const unsigned base = (i / W) * W;
        std::string s = "{";
        s += "\"phase\":" + jstr(phase) + ",\"lane\":" + u64s(i - base);
        s += ",\"a\":" + jstr(hexval(B.a[i]));
        if (vt.arity > 1) s += ",\"b\":" + jstr(hexval(B.b[i]));
        if (vt.arity > 2) s += ",\"c\":" + jstr(hexval(B.c[i]));
        s += ",\"exp\":" + jstr(hexval(B.e[i])) + ",\"got\":" + jstr(hexval(B.g[i]));
        s += ",\"args\":" + args_json(base) + "}";
        return s;
    }

    __attribute__((noinline, target("avx2"), optimize("O3"))) void compare_block(unsigned n, bool count_nt, std::uint64_t salt, const char* phase) {
        Stat& s = *st;
        // pass 1 (branch-free, vectorisable): counts and the number of raw mismatches
        std::uint64_t ev = 0, ntc = 0, bad = 0, dg = s.digest;
        for (unsigned i = 0; i < n; ++i) {
            ev += B.dom[i];
            ntc += B.nt[i];
            bad += (B.e[i] != B.g[i]) & B.dom[i];
        }
        for (unsigned i = 0; i < n; ++i) dg = ((dg << 1) | (dg >> 63)) ^ (B.dom[i] ? B.g[i] : 0);
        s.evals += ev;
        s.digest = dg;
        if (count_nt) { s.nontrivial += ntc; s.distinct += ev; }
        if (!bad) return;
        // pass 2: only when something differs bit-wise; the operation's comparison mode decides
        for (unsigned i = 0; i < n; ++i) {
            if (!B.dom[i] || B.e[i] == B.g[i]) continue;
            if (vt.same(B.e[i], B.g[i], B.flag[i])) continue;
            ++s.fails;
            std::uint64_t h = tuple_hash(vt.arity, B.a[i], B.b[i], B.c[i]);
            if (salt) h = hcomb(h, salt);
            s.fp += h;
            if (s.witnesses.size() < 4) add_witness(s, witness_json(i, phase));
        }
    }

    void phase1(const DomainS<S>& d) {
        const unsigned W = vt.W;
        const std::uint64_t n = d.size();
        // small domains are repeated with every rotation of the packing, so that every tuple is evaluated in every lane position
        const std::uint64_t budget = opt().thorough ? (1ull << 28) : (1ull << 25);
        // (not for operations whose second operand is one scalar for the whole vector: lane_pass == false marks those)
        const unsigned rots = (W > 1 && vt.lane_pass && n * W <= budget) ? W : 1;
        for (unsigned rot = 0; rot < rots; ++rot)
            for (std::uint64_t start = 0; start < n; start += VX_BLK) {
                cur = start;
                unsigned m = unsigned(n - start < VX_BLK ? n - start : VX_BLK);
                if (rot == 0) d.fill(start, m, B.a, B.b, B.c);
                else {
                    d.fill(start, m, ta, tb, tc);
                    for (unsigned i = 0; i < m; ++i) { unsigned q = (i + m - rot % m) % m; B.a[q] = ta[i]; B.b[q] = tb[i]; B.c[q] = tc[i]; }
                }
                unsigned padded = (m + W - 1) / W * W;
                for (unsigned i = m; i < padded; ++i) { B.a[i] = B.a[m - 1]; B.b[i] = B.b[m - 1]; B.c[i] = B.c[m - 1]; }
                vt.model_block(B, padded);
                impl_block(padded);
                compare_block(m, rot == 0, rot ? hcomb(0x2071, rot) : 0, rot ? "enumeration (rotated packing)" : "enumeration");
                if (rot == 0 && start == 0 && m > 0) {
                    unsigned pick[3] = {0, m / 2, m - 1};
                    for (unsigned k = 0; k < 3; ++k)
                        if (B.dom[pick[k]]) add_sample(*st, witness_json(pick[k], "enumeration"));
                }
            }
    }

    // every K-tuple in every lane position against every neighbour fill
    void phase2(const std::vector<S>& K, const std::vector<S>& fills) {
        const unsigned W = vt.W;
        if (W == 1 || !vt.lane_pass) return;
        const std::size_t nk = K.size();
        const std::size_t step = nk >= 8 ? nk / 8 : 1;
        std::uint64_t total = nk;
        if (vt.arity == 2) total = std::uint64_t(nk) * nk;
        if (vt.arity == 3) total = std::uint64_t(nk) * 8 * 8;  // a over K, b and c over 8 spread members of K
        for (std::size_t f = 0; f + 1 < fills.size(); f += 2) {
            const S fa = fills[f], fb = fills[f + 1];
            for (std::uint64_t t = 0; t < total; ++t) {
                S ta = K[t % nk], tb = ta, tc = ta;
                if (vt.arity == 2) tb = K[t / nk];
                if (vt.arity == 3) { std::uint64_t r = t / nk; tb = K[((r % 8) * step) % nk]; tc = K[((r / 8) * step) % nk]; }
                for (unsigned lane = 0; lane < W; ++lane) {
                    cur = t;
                    for (unsigned i = 0; i < W; ++i) { B.a[i] = fa; B.b[i] = fb; B.c[i] = fa; }
                    B.a[lane] = ta; B.b[lane] = tb; B.c[lane] = tc;
                    vt.model_block(B, W);
                    cur_off = 0;
                    vt.impl_vec(B, 0);
                    compare_block(W, false, hcomb(lane + 1, f + 1), "lane-placement");
                }
            }
        }
    }

    // lane groups: the K-tuples again, arranged so that groups of lanes agree - the whole vector equal, lanes below a split point k holding one tuple
    // and the rest another (every k), every lane alone differing from an otherwise uniform vector, and one operand uniform while the other varies.
    // A short cut taken when 'all' lanes are equal / small / uniform that looks at some of the lanes only shows here (seeds C01-b, C01-c, C15-c).
    void phase3(const std::vector<S>& K) {
        const unsigned W = vt.W;
        if (W == 1 || !vt.lane_pass) return;
        const std::size_t nk = K.size();
        const std::size_t step = nk >= 8 ? nk / 8 : 1;
        std::uint64_t total = nk;
        if (vt.arity == 2) total = std::uint64_t(nk) * nk;
        if (vt.arity == 3) total = std::uint64_t(nk) * 8 * 8;
        for (std::uint64_t t = 0; t < total; ++t) {
            S tu[2][3];
            for (int w = 0; w < 2; ++w) {
                const std::uint64_t x = w == 0 ? t : (t * 7 + 3) % total;  // the partner tuple
                tu[w][0] = K[x % nk]; tu[w][1] = tu[w][0]; tu[w][2] = tu[w][0];
                if (vt.arity == 2) tu[w][1] = K[x / nk];
                if (vt.arity == 3) { std::uint64_t r = x / nk; tu[w][1] = K[((r % 8) * step) % nk]; tu[w][2] = K[((r / 8) * step) % nk]; }
            }
            cur = t;
            // patterns 0..W-1: lanes below the split point hold the tuple, the others the partner (0: whole vector = partner ... W-1: one partner lane);
            // patterns W..2W-1: only lane (pattern - W) holds the tuple; pattern 2W: whole vector = tuple;
            // 2W+1: a varies over K, b and c uniform; 2W+2: a uniform, b (and c) vary
            for (unsigned pat = 0; pat < 2 * W + 3; ++pat) {
                for (unsigned i = 0; i < W; ++i) {
                    int w;
                    if (pat < W) w = i < pat ? 0 : 1;
                    else if (pat < 2 * W) w = i == pat - W ? 0 : 1;
                    else w = 0;
                    B.a[i] = tu[w][0]; B.b[i] = tu[w][1]; B.c[i] = tu[w][2];
                    if (pat == 2 * W + 1) B.a[i] = K[(t + i) % nk];
                    if (pat == 2 * W + 2) { B.b[i] = K[(t + i) % nk]; B.c[i] = K[(t + 3 * i + 1) % nk]; }
                }
                vt.model_block(B, W);
                cur_off = 0;
                vt.impl_vec(B, 0);
                compare_block(W, false, hcomb(0x9000 + pat, 0), "lane-groups");
            }
        }
    }

    // ambient floating-point state other than the rounding mode: the K tuples again with denormals-are-zero and/or flush-to-zero set in MXCSR (what
    // -ffast-math start-up code does). Integer results are compared (integer models do not depend on the floating-point environment; an integer
    // operation routed through subnormal doubles does: seed C05-d); for every element type the MXCSR control bits must come back as they were
    // handed in (an operation that clears 'the exception flags' with a mask that is one bit too wide: seed C11-d).
    void ambient(const std::vector<S>& K) {
        const unsigned W = vt.W;
        const bool cmp = std::is_integral<S>::value;
        const std::size_t nk = K.size();
        std::uint64_t total = nk;
        if (vt.arity >= 2) total = std::uint64_t(nk) * nk;
        static const unsigned amb[3] = {0x0040u, 0x8000u, 0x8040u};
        const unsigned saved = _mm_getcsr();
        bool reported = false;
        for (unsigned ai = 0; ai < 3; ++ai) {
            const unsigned want = (saved & ~0x8040u) | amb[ai];
            for (std::uint64_t t = 0; t < total; ++t) {
                cur = t;
                for (unsigned i = 0; i < W; ++i) { B.a[i] = K[(t + i) % nk]; B.b[i] = K[(t / nk + 3 * i) % nk]; B.c[i] = K[(t + 5 * i + 1) % nk]; }
                if (!vt.lane_pass) for (unsigned i = 1; i < W; ++i) { B.b[i] = B.b[0]; B.c[i] = B.c[0]; }
                vt.model_block(B, W);
                if (W == 1 && !B.dom[0]) continue;  // as in impl_block: a width-1 'vector' is a scalar, and a tuple outside the domain (division by zero) is not executed
                cur_off = 0;
                _mm_setcsr(want);
                vt.impl_vec(B, 0);
                const unsigned now = _mm_getcsr();
                _mm_setcsr(saved);
                if ((now & 0xFFC0u) != (want & 0xFFC0u) && !reported) {
                    reported = true;
                    char b[96];
                    std::snprintf(b, sizeof b, " handed in MXCSR=%04x, left MXCSR=%04x", want & 0xFFC0u, now & 0xFFC0u);
                    reg().mxcsr_changes.push_back(st->subject + ":" + st->op + b);
                }
                if (cmp) compare_block(W, false, hcomb(0xA000 + ai, 0), "ambient DAZ/FTZ");
            }
        }
    }

    struct Job {
        RunnerS* r;
        const DomainS<S>* d;
        const std::vector<S>* K;
        const std::vector<S>* fills;
        void operator()() {
            r->phase1(*d);
            if (K && !K->empty()) { r->phase2(*K, *fills); r->phase3(*K); r->ambient(*K); }
        }
    };
    struct ReplayJob {
        RunnerS* r;
        void operator()() { r->impl_block(r->vt.W); }
    };

    void do_replay() {
        const unsigned W = vt.W;
        const Options& o = opt();
        if (o.replay_args.size() < unsigned(vt.arity)) { std::printf("{\"replay\":false,\"error\":\"need %d args\"}\n", vt.arity); return; }
        S* dst[3] = {B.a, B.b, B.c};
        for (int k = 0; k < 3; ++k) {
            if (k < vt.arity) {
                if (!unhex(o.replay_args[k], dst[k], sizeof(S) * W)) { std::printf("{\"replay\":false,\"error\":\"bad arg %d\"}\n", k); return; }
            } else std::memcpy(dst[k], B.a, sizeof(S) * W);
        }
        vt.model_block(B, W);
        ReplayJob j = {this};
        // the failing pass may have been the one with denormals-are-zero / flush-to-zero set: a replay repeats the call under the default MXCSR and under the
        // three ambient settings of RunnerS::ambient() and reports a failure if any of them fails
        static const unsigned amb[4] = {0u, 0x0040u, 0x8000u, 0x8040u};
        const unsigned saved = _mm_getcsr();
        for (unsigned ai = 0; ai < 4; ++ai) {
            if (ai && !std::is_integral<S>::value) break;
            _mm_setcsr((saved & ~0x8040u) | amb[ai]);
            int sig = guarded(j);
            _mm_setcsr(saved);
            if (sig) { std::printf("{\"replay\":true,\"signal\":%d,\"fails\":1}\n", sig); return; }
            compare_block(W, false, 0, ai ? "replay (ambient DAZ/FTZ)" : "replay");
            if (st->fails) break;
        }
        std::printf("{\"replay\":true,\"signal\":0,\"fails\":%s,\"witnesses\":[", u64s(st->fails).c_str());
        for (std::size_t k = 0; k < st->witnesses.size(); ++k) std::printf("%s%s", k ? "," : "", st->witnesses[k].c_str());
        std::printf("]}\n");
    }

    void run(const std::string& subject, const DomainS<S>& dom, const std::vector<S>* K, const std::vector<S>& fills) {
        if (!selected(subject, vt.name)) return;
        Stat& s = new_stat(subject, vt.name, dom.name());
        st = &s;
        if (opt().replay) { do_replay(); return; }
        Job job = {this, &dom, K, &fills};
        FpGuard fpg(subject + ":" + vt.name);
        int sig = guarded(job);
        if (sig) {
            s.signal = sig;
            ++s.fails;
            s.fp += hcomb(0x5151, cur);
            add_witness(s, "{\"signal\":" + u64s(std::uint64_t(sig)) + ",\"at_index\":" + u64s(cur) + ",\"args\":" + args_json(cur_off) + "}");
        }
    }
};

template<class S>
inline RunnerS<S>& runner() {
    static RunnerS<S> r;  // static: large arrays, and survives siglongjmp
    return r;
}

template<class V, class Op, bool HAS = has_op<Op, V>::value>
struct Explore {
    static void run(const DomainS<typename V::scalar>&, const std::vector<typename V::scalar>*) {
        reg().notes.push_back("not provided: " + vname<V>() + ":" + Op::name() + name_suffix());
    }
};

template<class V, class Op>
struct Explore<V, Op, true> {
    static void run(const DomainS<typename V::scalar>& dom, const std::vector<typename V::scalar>* K) {
        typedef typename V::scalar S;
        RunnerS<S>& r = runner<S>();
        r.vt.name = std::string(Op::name()) + name_suffix();
        r.vt.arity = Op::arity;
        r.vt.lane_pass = Op::lane_pass;
        r.vt.W = V::width;
        r.vt.model_block = &model_block_fn<S, Op>;
        r.vt.impl_vec = &impl_vec_fn<V, Op>;
        r.vt.same = &same_sel<S, Op>::f;
        r.run(vname<V>(), dom, K, Op::template fills<S>());
    }
};

template<class V, class Op>
inline void explore(const DomainS<typename V::scalar>& dom, const std::vector<typename V::scalar>* K) { Explore<V, Op>::run(dom, K); }

}  // namespace vx
#endif
