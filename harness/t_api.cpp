// t_api.cpp - C19 (d): every operation the width-1 vector of an element type offers is declared, defined and linkable for every wider
// vector of that element type. Built at -O0 and linked with --warn-unresolved-symbols: the driver turns every 'undefined reference'
// into a failing (type, function) case; operations missing on a wider type are recorded at run time.
#include "vx_bitmodels.hpp"
#if VX_PART < 100
#include "ops_bit.hpp"
#include "ops_select.hpp"
#else
#include "vx_float.hpp"
#include "ops_select.hpp"
#include "ops_fround.hpp"
#include "ops_fmanip.hpp"
#include "ops_fclass.hpp"
#endif

namespace vx {

#define VX_API_OP(NAME, ARITY, ...) \
    struct NAME : OpBase { static const int arity = ARITY; static const char* name() { return #NAME; } \
        template<class V> static auto apply(V a, V b, V c) VX_AUTO(__VA_ARGS__) \
        template<class S> static std::uint64_t model(S, S, S) { return 0; } };

// operations no other harness touches
VX_API_OP(api_fmod, 2, avel::fmod(a, b))
VX_API_OP(api_rem_operator, 2, a % b)
VX_API_OP(api_rem_assign, 2, V(a %= b))
VX_API_OP(api_count, 1, avel::count(a))
VX_API_OP(api_any, 1, avel::any(a))
VX_API_OP(api_all, 1, avel::all(a))
VX_API_OP(api_none, 1, avel::none(a))
VX_API_OP(api_byteswap, 1, avel::byteswap(a))
VX_API_OP(api_decay, 1, V(avel::decay(a)))
VX_API_OP(api_to_array, 1, V(avel::to_array(a)))
VX_API_OP(api_mask_from_vector, 1, V(typename V::mask(a)))
VX_API_OP(api_div, 2, avel::div(a, b).quot)
VX_API_OP(api_rotl_scalar, 1, avel::rotl(a, 3ll))
VX_API_OP(api_rotr_scalar, 1, avel::rotr(a, 3ll))
VX_API_OP(api_rotl_const, 1, avel::rotl<3>(a))
VX_API_OP(api_rotr_const, 1, avel::rotr<3>(a))
VX_API_OP(api_bit_shift_left, 1, avel::bit_shift_left<1>(a))
VX_API_OP(api_bit_shift_right, 1, avel::bit_shift_right<1>(a))

// the rest of the catalogue: values of these are decided by C01..C17, here they only have to exist, be defined and link for every width
template<class V> inline typename V::scalar* api_buf() { alignas(64) static typename V::scalar buf[256]; return buf; }
template<class V> struct api_index { typedef avel::Vector<typename sint_of<typename V::scalar>::type, V::width> type; };
template<class V> inline typename api_index<V>::type api_idx() { return typename api_index<V>::type(typename sint_of<typename V::scalar>::type(0)); }
template<class V> inline typename api_index<V>::type& api_exp() { static typename api_index<V>::type e; return e; }
typedef long long api_ll;

VX_API_OP(api_add, 2, a + b)
VX_API_OP(api_sub, 2, a - b)
VX_API_OP(api_mul, 2, a * b)
VX_API_OP(api_quot, 2, a / b)
VX_API_OP(api_add_assign, 2, V(a += b))
VX_API_OP(api_sub_assign, 2, V(a -= b))
VX_API_OP(api_mul_assign, 2, V(a *= b))
VX_API_OP(api_quot_assign, 2, V(a /= b))
VX_API_OP(api_neg, 1, -a)
VX_API_OP(api_unary_plus, 1, +a)
VX_API_OP(api_preinc, 1, V(++a))
VX_API_OP(api_predec, 1, V(--a))
VX_API_OP(api_postinc, 1, V(a++))
VX_API_OP(api_postdec, 1, V(a--))
VX_API_OP(api_eq, 2, a == b)
VX_API_OP(api_ne, 2, a != b)
VX_API_OP(api_lt, 2, a < b)
VX_API_OP(api_le, 2, a <= b)
VX_API_OP(api_gt, 2, a > b)
VX_API_OP(api_ge, 2, a >= b)
VX_API_OP(api_bit_and, 2, a & b)
VX_API_OP(api_bit_or, 2, a | b)
VX_API_OP(api_bit_xor, 2, a ^ b)
VX_API_OP(api_bit_not, 1, ~a)
VX_API_OP(api_bit_and_assign, 2, V(a &= b))
VX_API_OP(api_bit_or_assign, 2, V(a |= b))
VX_API_OP(api_bit_xor_assign, 2, V(a ^= b))
VX_API_OP(api_shl_vec, 2, a << b)
VX_API_OP(api_shr_vec, 2, a >> b)
VX_API_OP(api_shl_vec_assign, 2, V(a <<= b))
VX_API_OP(api_shr_vec_assign, 2, V(a >>= b))
VX_API_OP(api_shl_scalar, 1, a << api_ll(3))
VX_API_OP(api_shr_scalar, 1, a >> api_ll(3))
VX_API_OP(api_shl_scalar_assign, 1, V(a <<= api_ll(3)))
VX_API_OP(api_shr_scalar_assign, 1, V(a >>= api_ll(3)))
VX_API_OP(api_rotl_vec, 2, avel::rotl(a, b))
VX_API_OP(api_rotr_vec, 2, avel::rotr(a, b))
VX_API_OP(api_mask_and, 2, (a == b) & (a < b))
VX_API_OP(api_mask_or, 2, (a == b) | (a < b))
VX_API_OP(api_mask_xor, 2, (a == b) ^ (a < b))
VX_API_OP(api_mask_not, 2, !(a == b))
VX_API_OP(api_mask_and_assign, 2, typename V::mask((a == b) &= (a < b)))
VX_API_OP(api_mask_or_assign, 2, typename V::mask((a == b) |= (a < b)))
VX_API_OP(api_mask_xor_assign, 2, typename V::mask((a == b) ^= (a < b)))
VX_API_OP(api_mask_eq, 2, (a == b) == (a < b))
VX_API_OP(api_mask_ne, 2, (a == b) != (a < b))
VX_API_OP(api_mask_count, 2, avel::count(a == b))
VX_API_OP(api_mask_any, 2, avel::any(a == b))
VX_API_OP(api_mask_all, 2, avel::all(a == b))
VX_API_OP(api_mask_none, 2, avel::none(a == b))
VX_API_OP(api_mask_extract, 2, avel::extract<0>(a == b))
VX_API_OP(api_mask_insert, 2, avel::insert<0>(a == b, true))
VX_API_OP(api_mask_from_bool, 1, (a == a) & typename V::mask(true))
VX_API_OP(api_extract, 1, avel::extract<0>(a))
VX_API_OP(api_insert, 1, avel::insert<0>(a, typename V::scalar(1)))
VX_API_OP(api_broadcast, 1, a + V(typename V::scalar(1)))
VX_API_OP(api_assign_scalar, 1, V(a = typename V::scalar(1)))
VX_API_OP(api_load, 1, a + avel::load<V>(api_buf<V>()))
VX_API_OP(api_load_n, 1, a + avel::load<V>(api_buf<V>(), 1u))
VX_API_OP(api_load_ct, 1, a + avel::load<V, 1>(api_buf<V>()))
VX_API_OP(api_aligned_load, 1, a + avel::aligned_load<V>(api_buf<V>()))
VX_API_OP(api_aligned_load_n, 1, a + avel::aligned_load<V>(api_buf<V>(), 1u))
VX_API_OP(api_aligned_load_ct, 1, a + avel::aligned_load<V, 1>(api_buf<V>()))
VX_API_OP(api_store, 1, (avel::store(api_buf<V>(), a), a))
VX_API_OP(api_store_n, 1, (avel::store(api_buf<V>(), a, 1u), a))
VX_API_OP(api_store_ct, 1, (avel::store<1>(api_buf<V>(), a), a))
VX_API_OP(api_aligned_store, 1, (avel::aligned_store(api_buf<V>(), a), a))
VX_API_OP(api_aligned_store_n, 1, (avel::aligned_store(api_buf<V>(), a, 1u), a))
VX_API_OP(api_aligned_store_ct, 1, (avel::aligned_store<1>(api_buf<V>(), a), a))
VX_API_OP(api_gather, 1, a + avel::gather<V>(api_buf<V>(), api_idx<V>()))
VX_API_OP(api_gather_n, 1, a + avel::gather<V>(api_buf<V>(), api_idx<V>(), 1u))
VX_API_OP(api_gather_ct, 1, a + avel::gather<V, 1>(api_buf<V>(), api_idx<V>()))
VX_API_OP(api_scatter, 1, (avel::scatter(api_buf<V>(), a, api_idx<V>()), a))
VX_API_OP(api_scatter_n, 1, (avel::scatter(api_buf<V>(), a, api_idx<V>(), 1u), a))
VX_API_OP(api_scatter_ct, 1, (avel::scatter<1>(api_buf<V>(), a, api_idx<V>()), a))
VX_API_OP(api_sqrt, 1, avel::sqrt(a))
VX_API_OP(api_frexp, 1, avel::frexp(a, &api_exp<V>()))
VX_API_OP(api_minmax, 2, osel::at1(avel::minmax(a, b)))

inline std::string& not_offered() { static std::string s; return s; }
typedef void (*anyfn)();
static volatile anyfn sink_table[4096];
static unsigned sink_n;

template<class V, class Op, bool W1 = has_op<Op, avel::Vector<typename V::scalar, 1> >::value, bool HERE = has_op<Op, V>::value>
struct Use {  // offered by the width-1 vector and by V: force the instantiation (odr-use) so that an undefined function surfaces at link time
    static void go(Stat& st) {
        ++st.evals; ++st.distinct; ++st.nontrivial;
        sink_table[sink_n++ % 4096] = reinterpret_cast<anyfn>(&impl_vec_fn<V, Op>);
    }
};
template<class V, class Op>
struct Use<V, Op, true, false> {  // the width-1 vector offers it, V does not
    static void go(Stat& st) {
        ++st.evals; ++st.distinct; ++st.nontrivial;
        ++st.fails;
        st.fp += mix(std::uint64_t(std::hash<std::string>()(Op::name())));
        if (st.witnesses.size() < 8) add_witness(st, "{\"missing\":" + jstr(Op::name()) + ",\"args\":[]}");
    }
};
template<class V, class Op, bool HERE>
struct Use<V, Op, false, HERE> { static void go(Stat&) { not_offered() += std::string(not_offered().empty() ? "" : " ") + Op::name(); } };

template<class V>
struct PerType {
    static void run() {
        if (V::width == 1) return;
        not_offered().clear();
        if (!opt().only_subject.empty() && opt().only_subject != vname<V>()) return;
        Stat& st = new_stat(vname<V>(), "api_parity_with_width_1", "every operation in the harness' operation catalogue that the width-1 vector of the element type offers");
#define U(OP) Use<V, OP>::go(st);
        U(api_fmod) U(api_rem_operator) U(api_rem_assign) U(api_count) U(api_any) U(api_all) U(api_none) U(api_byteswap) U(api_decay) U(api_to_array)
        U(api_mask_from_vector) U(api_div) U(api_rotl_scalar) U(api_rotr_scalar) U(api_rotl_const) U(api_rotr_const) U(api_bit_shift_left) U(api_bit_shift_right)
        U(api_add) U(api_sub) U(api_mul) U(api_quot) U(api_add_assign) U(api_sub_assign) U(api_mul_assign) U(api_quot_assign) U(api_neg) U(api_unary_plus)
        U(api_preinc) U(api_predec) U(api_postinc) U(api_postdec) U(api_eq) U(api_ne) U(api_lt) U(api_le) U(api_gt) U(api_ge)
        U(api_bit_and) U(api_bit_or) U(api_bit_xor) U(api_bit_not) U(api_bit_and_assign) U(api_bit_or_assign) U(api_bit_xor_assign)
        U(api_shl_vec) U(api_shr_vec) U(api_shl_vec_assign) U(api_shr_vec_assign) U(api_shl_scalar) U(api_shr_scalar) U(api_shl_scalar_assign) U(api_shr_scalar_assign)
        U(api_rotl_vec) U(api_rotr_vec) U(api_mask_and) U(api_mask_or) U(api_mask_xor) U(api_mask_not) U(api_mask_and_assign) U(api_mask_or_assign) U(api_mask_xor_assign)
        U(api_mask_eq) U(api_mask_ne) U(api_mask_count) U(api_mask_any) U(api_mask_all) U(api_mask_none) U(api_mask_extract) U(api_mask_insert) U(api_mask_from_bool)
        U(api_extract) U(api_insert) U(api_broadcast) U(api_assign_scalar)
        U(api_load) U(api_load_n) U(api_load_ct) U(api_aligned_load) U(api_aligned_load_n) U(api_aligned_load_ct)
        U(api_store) U(api_store_n) U(api_store_ct) U(api_aligned_store) U(api_aligned_store_n) U(api_aligned_store_ct)
        U(api_gather) U(api_gather_n) U(api_gather_ct) U(api_scatter) U(api_scatter_n) U(api_scatter_ct)
        U(api_sqrt) U(api_frexp) U(api_minmax)
        U(osel::blend) U(osel::keep) U(osel::clear) U(osel::negate) U(osel::min) U(osel::max) U(osel::minmax_lo) U(osel::clamp) U(osel::abs) U(osel::neg_abs) U(osel::vector_from_mask)
#if VX_PART < 100
        U(osel::average) U(osel::midpoint) U(osel::set_bits)
        U(obit::popcount) U(obit::countl_zero) U(obit::countl_one) U(obit::countr_zero) U(obit::countr_one) U(obit::bit_width) U(obit::bit_floor) U(obit::bit_ceil)
        U(obit::has_single_bit) U(obit::byteswap) U(obit::countl_sign)
#else
        U(osel::copysign)
        U(ofr::ceil) U(ofr::floor) U(ofr::trunc) U(ofr::round) U(ofr::nearbyint) U(ofr::rint)
        U(ofm::frexp_significand) U(ofm::ldexp) U(ofm::scalbn) U(ofm::ilogb) U(ofm::logb) U(ofm::frac) U(ofm::fmax) U(ofm::fmin) U(ofm::fdim)
        U(ofc::fpclassify) U(ofc::isnan) U(ofc::isinf) U(ofc::isfinite) U(ofc::isnormal) U(ofc::signbit)
        U(ofc::isgreater) U(ofc::isgreaterequal) U(ofc::isless) U(ofc::islessequal) U(ofc::islessgreater) U(ofc::isunordered)
#endif
#undef U
        add_sample(st, "{\"operations_checked\":" + u64s(st.evals) + ",\"catalogue_entries_the_width_1_vector_does_not_offer\":" + jstr(not_offered()) + "}");
        not_offered().clear();
    }
};

}  // namespace vx

int main(int argc, char** argv) {
    if (int rc = vx::parse_args(argc, argv)) return rc;
#if VX_PART < 100
    vx::for_each_int_type<vx::PerType>();
#else
    vx::for_each_float_type<vx::PerType>();
#endif
    if (vx::opt().replay) {
        unsigned long long fails = 0;
        for (std::size_t i = 0; i < vx::reg().stats.size(); ++i) if (vx::reg().stats[i]->op == vx::opt().only_op) fails += vx::reg().stats[i]->fails;
        std::printf("{\"replay\":true,\"signal\":0,\"fails\":%llu}\n", fails);
        return 0;
    }
    return vx::write_results("t_api", vx::part_name());
}
