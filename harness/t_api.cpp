// t_api.cpp - C19 (d): every operation the width-1 vector of an element type offers is declared, defined and linkable for every wider
// vector of that element type. Built at -O0 and linked with --warn-unresolved-symbols: the driver turns every 'undefined reference'
// into a failing (type, function) case; operations missing on a wider type are recorded at run time.
#include "vx_bitmodels.hpp"
#if VX_PART < 100
#include "ops_bit.hpp"
#include "ops_select.hpp"
#else
#include "vx_float.hpp"
#include "ops_select.hpp"
#include "ops_fround.hpp"
#include "ops_fmanip.hpp"
#include "ops_fclass.hpp"
#endif

namespace vx {

#define VX_API_OP(NAME, ARITY, EXPR) \
    struct NAME : OpBase { static const int arity = ARITY; static const char* name() { return #NAME; } \
        template<class V> static auto apply(V a, V b, V c) VX_AUTO(EXPR) \
        template<class S> static std::uint64_t model(S, S, S) { return 0; } };

// operations no other harness touches
VX_API_OP(api_fmod, 2, avel::fmod(a, b))
VX_API_OP(api_rem_operator, 2, a % b)
VX_API_OP(api_rem_assign, 2, V(a %= b))
VX_API_OP(api_count, 1, avel::count(a))
VX_API_OP(api_any, 1, avel::any(a))
VX_API_OP(api_all, 1, avel::all(a))
VX_API_OP(api_none, 1, avel::none(a))
VX_API_OP(api_byteswap, 1, avel::byteswap(a))
VX_API_OP(api_decay, 1, V(avel::decay(a)))
VX_API_OP(api_to_array, 1, V(avel::to_array(a)))
VX_API_OP(api_mask_from_vector, 1, V(typename V::mask(a)))
VX_API_OP(api_div, 2, avel::div(a, b).quot)
VX_API_OP(api_rotl_scalar, 1, avel::rotl(a, 3ll))
VX_API_OP(api_rotr_scalar, 1, avel::rotr(a, 3ll))
VX_API_OP(api_rotl_const, 1, avel::rotl<3>(a))
VX_API_OP(api_rotr_const, 1, avel::rotr<3>(a))
VX_API_OP(api_bit_shift_left, 1, avel::bit_shift_left<1>(a))
VX_API_OP(api_bit_shift_right, 1, avel::bit_shift_right<1>(a))

typedef void (*anyfn)();
static volatile anyfn sink_table[4096];
static unsigned sink_n;

template<class V, class Op, bool W1 = has_op<Op, avel::Vector<typename V::scalar, 1> >::value, bool HERE = has_op<Op, V>::value>
struct Use {  // offered by the width-1 vector and by V: force the instantiation (odr-use) so that an undefined function surfaces at link time
    static void go(Stat& st) {
        ++st.evals; ++st.distinct; ++st.nontrivial;
        sink_table[sink_n++ % 4096] = reinterpret_cast<anyfn>(&impl_vec_fn<V, Op>);
    }
};
template<class V, class Op>
struct Use<V, Op, true, false> {  // the width-1 vector offers it, V does not
    static void go(Stat& st) {
        ++st.evals; ++st.distinct; ++st.nontrivial;
        ++st.fails;
        st.fp += mix(std::uint64_t(std::hash<std::string>()(Op::name())));
        if (st.witnesses.size() < 8) add_witness(st, "{\"missing\":" + jstr(Op::name()) + ",\"args\":[]}");
    }
};
template<class V, class Op, bool HERE>
struct Use<V, Op, false, HERE> { static void go(Stat&) {} };

template<class V>
struct PerType {
    static void run() {
        if (V::width == 1) return;
        if (!opt().only_subject.empty() && opt().only_subject != vname<V>()) return;
        Stat& st = new_stat(vname<V>(), "api_parity_with_width_1", "every operation in the harness' operation catalogue that the width-1 vector of the element type offers");
#define U(OP) Use<V, OP>::go(st);
        U(api_fmod) U(api_rem_operator) U(api_rem_assign) U(api_count) U(api_any) U(api_all) U(api_none) U(api_byteswap) U(api_decay) U(api_to_array)
        U(api_mask_from_vector) U(api_div) U(api_rotl_scalar) U(api_rotr_scalar) U(api_rotl_const) U(api_rotr_const) U(api_bit_shift_left) U(api_bit_shift_right)
        U(osel::blend) U(osel::keep) U(osel::clear) U(osel::negate) U(osel::min) U(osel::max) U(osel::minmax_lo) U(osel::clamp) U(osel::abs) U(osel::neg_abs) U(osel::vector_from_mask)
#if VX_PART < 100
        U(osel::average) U(osel::midpoint) U(osel::set_bits)
        U(obit::popcount) U(obit::countl_zero) U(obit::countl_one) U(obit::countr_zero) U(obit::countr_one) U(obit::bit_width) U(obit::bit_floor) U(obit::bit_ceil)
        U(obit::has_single_bit) U(obit::byteswap) U(obit::countl_sign)
#else
        U(osel::copysign)
        U(ofr::ceil) U(ofr::floor) U(ofr::trunc) U(ofr::round) U(ofr::nearbyint) U(ofr::rint)
        U(ofm::frexp_significand) U(ofm::ldexp) U(ofm::scalbn) U(ofm::ilogb) U(ofm::logb) U(ofm::frac) U(ofm::fmax) U(ofm::fmin) U(ofm::fdim)
        U(ofc::fpclassify) U(ofc::isnan) U(ofc::isinf) U(ofc::isfinite) U(ofc::isnormal) U(ofc::signbit)
        U(ofc::isgreater) U(ofc::isgreaterequal) U(ofc::isless) U(ofc::islessequal) U(ofc::islessgreater) U(ofc::isunordered)
#endif
#undef U
        add_sample(st, "{\"operations_checked\":" + u64s(st.evals) + "}");
    }
};

}  // namespace vx

int main(int argc, char** argv) {
    if (int rc = vx::parse_args(argc, argv)) return rc;
#if VX_PART < 100
    vx::for_each_int_type<vx::PerType>();
#else
    vx::for_each_float_type<vx::PerType>();
#endif
    if (vx::opt().replay) {
        unsigned long long fails = 0;
        for (std::size_t i = 0; i < vx::reg().stats.size(); ++i) if (vx::reg().stats[i]->op == vx::opt().only_op) fails += vx::reg().stats[i]->fails;
        std::printf("{\"replay\":true,\"signal\":0,\"fails\":%llu}\n", fails);
        return 0;
    }
    return vx::write_results("t_api", vx::part_name());
}
