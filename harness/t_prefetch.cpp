// t_prefetch.cpp - C20: prefetch hints never fault and never change memory. Explorer C: every byte offset of a cache line in every kind
// of page (valid, last line before PROT_NONE, inside PROT_NONE, read-only, null, non-canonical), every count of the menu, every level.
#include "vx_core.hpp"
#include <sys/mman.h>
#include <map>

namespace vx {

static const std::size_t PAGE = 4096;
struct E4 { unsigned char b[4]; };
struct E64 { unsigned char b[64]; };
struct E4096 { unsigned char b[4096]; };

struct Arena {
    static const std::size_t TAIL = std::size_t(40) << 20;
    unsigned char* base;  // 6 pages: [0] PROT_NONE, [1..3] data, [4] read-only, [5] PROT_NONE
    std::uint64_t sum0;
    Arena() {
        // the six pages are followed by TAIL bytes of reserved, inaccessible address space, so that very large counts stay inside memory this harness owns
        base = static_cast<unsigned char*>(mmap(0, 6 * PAGE + TAIL, PROT_NONE, MAP_PRIVATE | MAP_ANONYMOUS | MAP_NORESERVE, -1, 0));
        mprotect(base, 6 * PAGE, PROT_READ | PROT_WRITE);
        for (std::size_t i = 0; i < 6 * PAGE; ++i) base[i] = static_cast<unsigned char>(mix(i) >> 13);
        sum0 = checksum_open();
        protect();
    }
    void protect() { mprotect(base, PAGE, PROT_NONE); mprotect(base + 4 * PAGE, PAGE, PROT_READ); mprotect(base + 5 * PAGE, PAGE, PROT_NONE); }
    void open() { mprotect(base, 6 * PAGE, PROT_READ | PROT_WRITE); }
    std::uint64_t checksum_open() { std::uint64_t h = 0; for (std::size_t i = 0; i < 6 * PAGE; ++i) h = hcomb(h, base[i]); return h; }
    std::uint64_t checksum() { open(); std::uint64_t h = checksum_open(); protect(); return h; }
};
inline Arena& arena() { static Arena a; return a; }

struct Book {
    std::map<std::string, Stat*> stats;
    Stat& st(const std::string& op) {
        std::map<std::string, Stat*>::iterator it = stats.find(op);
        if (it != stats.end()) return *it->second;
        Stat& s = new_stat("prefetch", op, "pointer regions {valid, last line before PROT_NONE, inside PROT_NONE, read-only, null, non-canonical} x every byte offset of a 64-byte line x counts {65537, 262145, 300000, 2^20+3, 2^24+7 at two offsets; 0,1,63,64,65,4095,4096,4097,3 pages}");
        stats[op] = &s;
        return s;
    }
};
inline Book& book() { static Book b; return b; }

template<int KIND, int LEVEL, class T>
struct Call {
    const void* p; std::size_t n;
    void operator()() {
        const avel::Cache_level L = static_cast<avel::Cache_level>(LEVEL);
        (void)L;
        if (KIND == 0) avel::prefetch_read<static_cast<avel::Cache_level>(LEVEL)>(static_cast<const T*>(p), n);
        else avel::prefetch_write<static_cast<avel::Cache_level>(LEVEL)>(static_cast<const T*>(p), n);
    }
};
template<int KIND, int LEVEL>
struct Call<KIND, LEVEL, void> {
    const void* p; std::size_t n;
    void operator()() {
        if (KIND == 0) avel::prefetch_read<static_cast<avel::Cache_level>(LEVEL)>(p, n);
        else avel::prefetch_write<static_cast<avel::Cache_level>(LEVEL)>(p, n);
    }
};

template<int KIND, int LEVEL, class T>
inline void run_one(const char* tname) {
    Arena& A = arena();
    char opn[80];
    std::snprintf(opn, sizeof opn, "prefetch_%s<L%d>(%s)", KIND == 0 ? "read" : "write", LEVEL + 1, tname);
    if (!opt().only_op.empty() && opt().only_op != opn) return;
    Stat& s = book().st(opn);
    struct Region { const char* name; unsigned char* p; };
    Region regions[] = {
        {"valid page", A.base + 2 * PAGE + 512},
        {"last line before PROT_NONE", A.base + 5 * PAGE - 64},   // read-only page's last line, PROT_NONE follows
        {"last line of data before read-only", A.base + 4 * PAGE - 64},
        {"inside PROT_NONE", A.base + 5 * PAGE + 128},
        {"leading PROT_NONE page", A.base + 64},
        {"read-only page", A.base + 4 * PAGE + 256},
        {"null", 0},
        {"non-canonical", reinterpret_cast<unsigned char*>(0x8000000000000000ull)},
        {"top of address space", reinterpret_cast<unsigned char*>(~std::uintptr_t(0) - 4096)},
    };
    const std::size_t counts[] = {0, 1, 63, 64, 65, 4095, 4096, 4097, 3 * PAGE};
    const std::size_t esz = std::is_void<T>::value ? 1 : sizeof(typename std::conditional<std::is_void<T>::value, char, T>::type);
    for (unsigned r = 0; r < sizeof(regions) / sizeof(regions[0]); ++r)
        for (unsigned off = 0; off < 64; ++off)
            for (unsigned c = 0; c < sizeof(counts) / sizeof(counts[0]); ++c) {
                // counts are in bytes for the untyped form and converted to objects (rounded up) for the typed forms
                std::size_t n = std::is_void<T>::value ? counts[c] : (counts[c] + esz - 1) / esz;
                if (!std::is_void<T>::value && off % esz % 4 != 0 && esz >= 4) { /* misaligned typed pointers are still only hints */ }
                Call<KIND, LEVEL, T> call = {regions[r].p ? regions[r].p + off : reinterpret_cast<unsigned char*>(std::uintptr_t(off)), n};
                int sig = guarded(call);
                ++s.evals; ++s.distinct;
                s.nontrivial += (r != 0);
                if (sig) {
                    ++s.fails;
                    s.fp += hcomb(hcomb(r, off), c);
                    if (s.witnesses.size() < 4) {
                        char b[200];
                        std::snprintf(b, sizeof b, "{\"signal\":%d,\"region\":\"%s\",\"offset\":%u,\"n\":%llu,\"args\":[]}", sig, regions[r].name, off, (unsigned long long)n);
                        add_witness(s, b);
                    }
                }
            }
    // very large counts (seeds C20-b/C20-c: a 'warm the TLB' loop that really loads once per page above some threshold): two offsets per region
    const std::size_t big[] = {65537, 262145, 300000, (std::size_t(1) << 20) + 3, (std::size_t(1) << 24) + 7};
    const unsigned boffs[] = {0, 37};
    for (unsigned r = 0; r < sizeof(regions) / sizeof(regions[0]); ++r)
        for (unsigned oi = 0; oi < 2; ++oi)
            for (unsigned c = 0; c < sizeof(big) / sizeof(big[0]); ++c) {
                const unsigned off = boffs[oi];
                std::size_t n = std::is_void<T>::value ? big[c] : (big[c] + esz - 1) / esz;
                Call<KIND, LEVEL, T> call = {regions[r].p ? regions[r].p + off : reinterpret_cast<unsigned char*>(std::uintptr_t(off)), n};
                int sig = guarded(call);
                ++s.evals; ++s.distinct; ++s.nontrivial;
                if (sig) {
                    ++s.fails;
                    s.fp += hcomb(hcomb(r + 100, off), c);
                    if (s.witnesses.size() < 4) {
                        char b[200];
                        std::snprintf(b, sizeof b, "{\"signal\":%d,\"region\":\"%s\",\"offset\":%u,\"n\":%llu,\"args\":[]}", sig, regions[r].name, off, (unsigned long long)n);
                        add_witness(s, b);
                    }
                }
            }
    // memory contents unchanged
    ++s.evals; ++s.distinct;
    if (A.checksum() != A.sum0) {
        ++s.fails;
        s.fp += 0xC0FFEE;
        if (s.witnesses.size() < 4) add_witness(s, "{\"memory_changed\":true,\"args\":[]}");
    }
    add_sample(s, "{\"calls\":" + u64s(s.evals) + "}");
}

template<int KIND, int LEVEL>
inline void run_level() {
    run_one<KIND, LEVEL, void>("void");
    run_one<KIND, LEVEL, unsigned char>("uint8");
    run_one<KIND, LEVEL, E4>("4-byte object");
    run_one<KIND, LEVEL, E64>("64-byte object");
    run_one<KIND, LEVEL, E4096>("4096-byte object");
}

}  // namespace vx

int main(int argc, char** argv) {
    if (int rc = vx::parse_args(argc, argv)) return rc;
    using namespace vx;
    run_level<0, 0>(); run_level<0, 1>(); run_level<0, 2>();
    run_level<1, 0>(); run_level<1, 1>(); run_level<1, 2>();
    if (opt().replay) {
        unsigned long long fails = 0;
        for (std::size_t i = 0; i < reg().stats.size(); ++i) if (reg().stats[i]->op == opt().only_op) fails += reg().stats[i]->fails;
        std::printf("{\"replay\":true,\"signal\":0,\"fails\":%llu}\n", fails);
        return 0;
    }
    return write_results("t_prefetch", "all");
}
