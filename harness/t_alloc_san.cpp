// t_alloc_san.cpp - C18, sanitizer pass: the same allocation histories against the system allocator under
// -fsanitize=address,undefined (undefined behaviour traps -> SIGILL -> attributed to the case; heap errors abort the run).
#include <avel/Aligned_allocator.hpp>
#include "vx_core.hpp"
#include <map>
#include <algorithm>

// leaks are decided by the interposed model heap of t_alloc.cpp; here a trapped history is abandoned by siglongjmp and would be reported as a leak
extern "C" const char* __asan_default_options() { return "detect_leaks=0:abort_on_error=1"; }

namespace vx {

template<unsigned SZ, unsigned AL> struct alignas(AL) Elem { unsigned char b[SZ]; };

template<class T, std::size_t A>
struct SanRun {
    typedef avel::Aligned_allocator<T, A> Alloc;
    struct Case {
        unsigned n[3]; unsigned cnt; unsigned order;  // order: which permutation of frees
        void operator()() {
            Alloc al;
            T* p[3];
            for (unsigned i = 0; i < cnt; ++i) {
                p[i] = al.allocate(n[i]);
                if (n[i]) std::memset(static_cast<void*>(p[i]), int(0x40 + i), std::size_t(n[i]) * sizeof(T));
            }
            unsigned perm[3] = {0, 1, 2};
            for (unsigned k = 0; k < order; ++k) std::next_permutation(perm, perm + cnt);
            for (unsigned k = 0; k < cnt; ++k) {
                unsigned i = perm[k];
                volatile unsigned char sink = 0;
                for (std::size_t b = 0; b < std::size_t(n[i]) * sizeof(T); ++b) sink = sink + reinterpret_cast<unsigned char*>(p[i])[b];
                al.deallocate(p[i], n[i]);
            }
        }
    };
    static void go() {
        char nm[64];
        std::snprintf(nm, sizeof nm, "alloc<T%u,A%u>", unsigned(sizeof(T)), unsigned(A));
        if (!opt().only_subject.empty() && opt().only_subject != nm) return;
        Stat& s = new_stat(nm, "sanitized_history", "every sequence of <= 3 allocations with n in {0,1,2,3,7,8,9,16,17,4096/sizeof(T)+1} (2 sizes quick) freed in every order, system allocator, ASan+UBSan");
        unsigned c[] = {0, 1, 2, 3, 7, 8, 9, 16, 17, unsigned(4096 / sizeof(T) + 1)};
        std::vector<unsigned> counts(c, c + 10);
        const unsigned fact[4] = {1, 1, 2, 6};
        const unsigned maxcnt = opt().thorough ? 3 : 2;
        for (unsigned cnt = 1; cnt <= maxcnt; ++cnt) {
            std::size_t total = 1;
            for (unsigned k = 0; k < cnt; ++k) total *= counts.size();
            for (std::size_t t = 0; t < total; ++t)
                for (unsigned order = 0; order < fact[cnt]; ++order) {
                    Case cs;
                    cs.cnt = cnt; cs.order = order;
                    std::size_t r = t;
                    for (unsigned k = 0; k < cnt; ++k) { cs.n[k] = counts[r % counts.size()]; r /= counts.size(); }
                    for (unsigned k = cnt; k < 3; ++k) cs.n[k] = 0;
                    int sig = guarded(cs);
                    ++s.evals; ++s.distinct;
                    bool nt = false;
                    for (unsigned k = 0; k < cnt; ++k) nt = nt || (std::size_t(cs.n[k]) * sizeof(T)) % sizeof(std::size_t) != 0;
                    s.nontrivial += nt;
                    if (sig) {
                        ++s.fails;
                        s.fp += hcomb(hcomb(hcomb(cs.n[0], cs.n[1]), cs.n[2]), cnt * 8 + order);
                        if (s.witnesses.size() < 4) {
                            char b[160];
                            std::snprintf(b, sizeof b, "{\"signal\":%d,\"allocations\":[%u,%u,%u],\"count\":%u,\"free_order\":%u,\"args\":[]}", sig, cs.n[0], cs.n[1], cs.n[2], cnt, order);
                            add_witness(s, b);
                        }
                    }
                }
        }
        add_sample(s, "{\"histories\":" + u64s(s.evals) + "}");
    }
};

template<class T, std::size_t A, bool OK = (A <= 4096)>
struct ForAlign { static void go() { SanRun<T, A>::go(); ForAlign<T, A * 2>::go(); } };
template<class T, std::size_t A> struct ForAlign<T, A, false> { static void go() {} };

}  // namespace vx

int main(int argc, char** argv) {
    if (int rc = vx::parse_args(argc, argv)) return rc;
    using namespace vx;
    ForAlign<Elem<1, 1>, 1>::go();
    ForAlign<Elem<2, 2>, 2>::go();
    ForAlign<Elem<4, 4>, 4>::go();
    ForAlign<Elem<8, 8>, 8>::go();
    ForAlign<Elem<16, 16>, 16>::go();
    ForAlign<Elem<64, 64>, 64>::go();
    ForAlign<Elem<3, 1>, 1>::go();
    if (opt().replay) {
        unsigned long long fails = 0;
        for (std::size_t i = 0; i < reg().stats.size(); ++i) if (reg().stats[i]->op == opt().only_op) fails += reg().stats[i]->fails;
        std::printf("{\"replay\":true,\"signal\":0,\"fails\":%llu}\n", fails);
        return 0;
    }
    return write_results("t_alloc_san", "all");
}
