// t_mask.cpp - C03: explorer B. Breadth-first search over the reachable concrete representations of every Vector_mask<T,N>,
// each transition calling the real member function; after every transition the refinement map alpha (lane i = extract<i>)
// is compared with an array-of-bool model and every observer is checked in every newly discovered state.
#include "vx_core.hpp"
#include "vx_domains.hpp"
#include <map>
#include <set>
#include <deque>
#include <limits>

namespace vx {

typedef std::string Raw;  // raw bytes of the primitive of a mask

template<class M> inline Raw raw_of(const M& m) { return Raw(reinterpret_cast<const char*>(&m), sizeof(typename M::primitive)); }
template<class M> inline M from_raw(const Raw& r) {
    M m;
    std::memset(static_cast<void*>(&m), 0, sizeof(M));
    std::memcpy(static_cast<void*>(&m), r.data(), sizeof(typename M::primitive));
    return m;
}

// runtime-indexed extract / insert
template<class M, unsigned I, unsigned N>
struct LaneTab {
    static bool ext(M m, unsigned i) { return i == I ? avel::extract<I>(m) : LaneTab<M, I + 1, N>::ext(m, i); }
    static M ins(M m, unsigned i, bool b) { return i == I ? avel::insert<I>(m, b) : LaneTab<M, I + 1, N>::ins(m, i, b); }
};
template<class M, unsigned N>
struct LaneTab<M, N, N> {
    static bool ext(M, unsigned) { return false; }
    static M ins(M m, unsigned, bool) { return m; }
};

typedef std::vector<unsigned char> Abs;  // abstract state: N booleans

inline std::string abs_str(const Abs& a) {
    std::string s;
    for (std::size_t i = 0; i < a.size(); ++i) s.push_back(a[i] ? '1' : '0');
    return s;
}
inline std::uint64_t hash_raw(const Raw& r) {
    std::uint64_t h = 0x1234;
    for (std::size_t i = 0; i < r.size(); ++i) h = hcomb(h, (unsigned char)r[i] + 256 * i);
    return h;
}

// second pass of the whole search with denormals-are-zero and flush-to-zero set in MXCSR: a mask is not a number, nothing may change (seed C03-d built
// mask lanes that are subnormal doubles and compared them with 0.0)
inline std::string& pass_suffix() { static std::string s; return s; }

template<class V>
struct MaskBFS {
    typedef typename V::mask M;
    typedef typename V::scalar S;
    static const unsigned N = V::width;

    std::string subject;
    std::map<std::string, Stat*> stats;
    std::set<Raw> seen;
    std::map<std::string, Raw> canon;  // abstract -> first concrete representation
    std::deque<std::pair<Raw, unsigned> > frontier;
    std::vector<Raw> gens;  // raw bytes: over-aligned mask objects must not live in a C++11 std::vector
    std::vector<Abs> gens_abs;
    unsigned max_depth_reached;
    std::uint64_t n_states, n_trans;

    Stat& st(const char* op0) {
        const std::string opname = std::string(op0) + pass_suffix();
        const char* op = opname.c_str();
        std::map<std::string, Stat*>::iterator it = stats.find(op);
        if (it != stats.end()) return *it->second;
        Stat& s = new_stat(subject, op, N <= 16 ? "BFS to closure from all 2^N array-constructed states" : "BFS to bounded depth from MASK(N)");
        stats[op] = &s;
        return s;
    }

    static Abs alpha(M m) {
        Abs a(N);
        for (unsigned i = 0; i < N; ++i) a[i] = LaneTab<M, 0, N>::ext(m, i) ? 1 : 0;
        return a;
    }
    static M make(const Abs& a) {
        std::array<bool, N> arr;
        for (unsigned i = 0; i < N; ++i) arr[i] = a[i] != 0;
        return M(arr);
    }

    void fail(const char* op, const Raw& state, const std::string& extra, std::uint64_t salt, const std::string& detail) {
        Stat& s = st(op);
        ++s.fails;
        s.fp += hcomb(hash_raw(state), salt);
        if (s.witnesses.size() < 4)
            add_witness(s, "{\"state\":" + jstr(hex_bytes(state.data(), state.size())) + ",\"alpha\":" + jstr(abs_str(alpha(from_raw<M>(state)))) +
                               ",\"with\":" + jstr(extra) + ",\"detail\":" + jstr(detail) + ",\"args\":[" + jstr(hex_bytes(state.data(), state.size())) + "]}");
    }
    void ok(const char* op, bool nontrivial) {
        Stat& s = st(op);
        ++s.evals;
        ++s.distinct;
        if (nontrivial) ++s.nontrivial;
    }

    // ---- observers, evaluated once in every distinct concrete state -----------------------------
    template<class VV>
    static auto set_bits_of(typename VV::mask m, int) -> decltype(avel::set_bits(m)) { return avel::set_bits(m); }

    void observe(const Raw& r) {
        M m = from_raw<M>(r);
        Abs a = alpha(m);
        unsigned pop = 0;
        for (unsigned i = 0; i < N; ++i) pop += a[i];
        const bool mixed = pop != 0 && pop != N;
        // representation: the harness' raw decoding must agree with extract<I>, and no lane may be half set
        std::uint8_t dec[N];
        mask_lanes(m, dec);
        bool rep_ok = true;
        for (unsigned i = 0; i < N; ++i) rep_ok = rep_ok && dec[i] == a[i];
        ok("canonical_representation", mixed);
        if (!rep_ok) fail("canonical_representation", r, "", 1, "raw bytes are not the canonical all-ones/zero (or in-range k-register) pattern for the lanes extract<I> reports");
        // two concrete states with the same abstraction must compare equal
        std::string key = abs_str(a);
        std::map<std::string, Raw>::iterator it = canon.find(key);
        ok("equal_alpha_implies_equal", mixed);
        if (it == canon.end()) canon[key] = r;
        else if (it->second != r) {
            M other = from_raw<M>(it->second);
            if (!(m == other) || (m != other) || !(other == m))
                fail("equal_alpha_implies_equal", r, hex_bytes(it->second.data(), it->second.size()), 2, "two representations with identical lanes compare unequal");
        }
        ok("count", mixed);
        if (avel::count(m) != pop) fail("count", r, "", 3, "count=" + u64s(avel::count(m)) + " expected " + u64s(pop));
        ok("any", mixed);
        if (avel::any(m) != (pop != 0)) fail("any", r, "", 4, "any");
        ok("all", mixed);
        if (avel::all(m) != (pop == N)) fail("all", r, "", 5, "all");
        ok("none", mixed);
        if (avel::none(m) != (pop == 0)) fail("none", r, "", 6, "none");
        ok("self_equality", mixed);
        if (!(m == m) || (m != m)) fail("self_equality", r, "", 7, "m == m is false or m != m is true");
        // Vector(mask): 1 / 0 per lane
        {
            V v(m);
            S lanes[N];
            to_lanes(v, lanes);
            bool good = true;
            for (unsigned i = 0; i < N; ++i) good = good && bits_of(lanes[i]) == bits_of(S(a[i] ? 1 : 0));
            ok("vector_from_mask", mixed);
            if (!good) fail("vector_from_mask", r, "", 8, "Vector(mask) is not 1/0 per lane");
            // mask(vector) of that vector gives the mask back
            M back = M(v);
            ok("mask_from_vector_roundtrip", mixed);
            if (alpha(back) != a) fail("mask_from_vector_roundtrip", r, "", 9, "mask(Vector(mask)) changed lanes");
        }
        // keep / clear / blend with distinct lane payloads
        {
            S x[N], y[N], out[N];
            for (unsigned i = 0; i < N; ++i) {
                typename uint_of<S>::type ux = (typename uint_of<S>::type)(0x0102030405060708ull * (i + 1) + 0x11), uy = (typename uint_of<S>::type)(~ux);
                std::memcpy(&x[i], &ux, sizeof(S));
                std::memcpy(&y[i], &uy, sizeof(S));
            }
            V vx = from_lanes<V>(x), vy = from_lanes<V>(y);
            bool good = true;
            to_lanes(avel::keep(m, vx), out);
            for (unsigned i = 0; i < N; ++i) good = good && bits_of(out[i]) == (a[i] ? bits_of(x[i]) : 0);
            ok("keep", mixed);
            if (!good) fail("keep", r, "", 10, "keep");
            good = true;
            to_lanes(avel::clear(m, vx), out);
            for (unsigned i = 0; i < N; ++i) good = good && bits_of(out[i]) == (a[i] ? 0 : bits_of(x[i]));
            ok("clear", mixed);
            if (!good) fail("clear", r, "", 11, "clear");
            good = true;
            to_lanes(avel::blend(m, vx, vy), out);
            for (unsigned i = 0; i < N; ++i) good = good && bits_of(out[i]) == (a[i] ? bits_of(x[i]) : bits_of(y[i]));
            ok("blend", mixed);
            if (!good) fail("blend", r, "", 12, "blend");
        }
        set_bits_check(m, a, r, mixed, std::integral_constant<bool, std::is_integral<S>::value>());
        // inequality with the complement and with every single-lane neighbour
        {
            bool good = true;
            for (unsigned i = 0; i < N; ++i) {
                Abs b = a;
                b[i] ^= 1;
                M o = make(b);
                if ((m == o) || !(m != o)) good = false;
            }
            ok("inequality_with_neighbours", mixed);
            if (!good) fail("inequality_with_neighbours", r, "", 14, "m compares equal to a mask differing in one lane");
        }
    }
    void set_bits_check(M m, const Abs& a, const Raw& r, bool mixed, std::true_type) {
        S out[N];
        to_lanes(avel::set_bits(m), out);
        bool good = true;
        for (unsigned i = 0; i < N; ++i) good = good && bits_of(out[i]) == (a[i] ? low_mask(8 * sizeof(S)) : 0);
        ok("set_bits", mixed);
        if (!good) fail("set_bits", r, "", 13, "set_bits");
    }
    void set_bits_check(M, const Abs&, const Raw&, bool, std::false_type) {}

    // ---- exploration -------------------------------------------------------------------------
    void visit(const Raw& r, unsigned depth) {
        if (seen.insert(r).second) {
            ++n_states;
            if (depth > max_depth_reached) max_depth_reached = depth;
            observe(r);
            frontier.push_back(std::make_pair(r, depth));
        }
    }

    void check_transition(const char* op, const Raw& from, const std::string& with, std::uint64_t salt, M result, const Abs& expected, unsigned depth) {
        ++n_trans;
        Abs got = alpha(result);
        bool nt = false;
        for (unsigned i = 0; i + 1 < expected.size(); ++i) nt = nt || expected[i] != expected[i + 1];
        ok(op, nt);
        if (got != expected) fail(op, from, with, salt, "lanes " + abs_str(got) + " expected " + abs_str(expected));
        visit(raw_of(result), depth + 1);
    }

    void expand(const Raw& r, unsigned depth) {
        M m = from_raw<M>(r);
        Abs a = alpha(m);
        Abs e(N);
        // !m
        for (unsigned i = 0; i < N; ++i) e[i] = !a[i];
        check_transition("logical_not", r, "", 100, !m, e, depth);
        // assignment from bool
        for (int b = 0; b < 2; ++b) {
            M t = m;
            t = (b != 0);
            for (unsigned i = 0; i < N; ++i) e[i] = (unsigned char)b;
            check_transition("assign_bool", r, b ? "true" : "false", 101 + b, t, e, depth);
        }
        // insert<I>(m, b)
        for (unsigned lane = 0; lane < N; ++lane)
            for (int b = 0; b < 2; ++b) {
                e = a;
                e[lane] = (unsigned char)b;
                check_transition("insert", r, "lane " + u64s(lane) + (b ? " true" : " false"), 200 + 2 * lane + b, LaneTab<M, 0, N>::ins(m, lane, b != 0), e, depth);
            }
        // binary operations with every generator
        for (std::size_t gi = 0; gi < gens.size(); ++gi) {
            M g = from_raw<M>(gens[gi]);
            const Abs& ga = gens_abs[gi];
            const std::string gs = abs_str(ga);
            const std::uint64_t salt = 1000 + 16 * gi;
            M t = m; t &= g;
            for (unsigned i = 0; i < N; ++i) e[i] = a[i] & ga[i];
            check_transition("and_assign", r, gs, salt + 0, t, e, depth);
            check_transition("bit_and", r, gs, salt + 1, m & g, e, depth);
            check_transition("logical_and", r, gs, salt + 2, m && g, e, depth);
            t = m; t |= g;
            for (unsigned i = 0; i < N; ++i) e[i] = a[i] | ga[i];
            check_transition("or_assign", r, gs, salt + 3, t, e, depth);
            check_transition("bit_or", r, gs, salt + 4, m | g, e, depth);
            check_transition("logical_or", r, gs, salt + 5, m || g, e, depth);
            t = m; t ^= g;
            for (unsigned i = 0; i < N; ++i) e[i] = a[i] ^ ga[i];
            check_transition("xor_assign", r, gs, salt + 6, t, e, depth);
            check_transition("bit_xor", r, gs, salt + 7, m ^ g, e, depth);
            // equality against the generator
            bool eq = a == ga;
            ok("equality", true);
            if ((m == g) != eq || (m != g) == eq) fail("equality", r, gs, salt + 8, "== / != against a generator disagrees with the lanes");
        }
    }

    static std::vector<Abs> mask_alphabet() {
        std::vector<Abs> v;
        if (N <= 16) {
            for (unsigned long p = 0; p < (1ul << N); ++p) {
                Abs a(N);
                for (unsigned i = 0; i < N; ++i) a[i] = (p >> i) & 1;
                v.push_back(a);
            }
            return v;
        }
        std::set<std::string> dedupe;
        std::vector<Abs> base;
        Abs z(N, 0);
        base.push_back(z);
        for (unsigned i = 0; i < N; ++i) { Abs a(N, 0); a[i] = 1; base.push_back(a); }                                   // single lanes
        for (unsigned i = 0; i + 1 < N; ++i) { Abs a(N, 0); a[i] = a[i + 1] = 1; base.push_back(a); }                   // adjacent pairs
        for (unsigned k = 1; k < N; ++k) { Abs a(N, 0); for (unsigned i = 0; i < k; ++i) a[i] = 1; base.push_back(a); }  // prefixes
        for (unsigned k = 1; k < N; ++k) { Abs a(N, 0); for (unsigned i = k; i < N; ++i) a[i] = 1; base.push_back(a); }  // suffixes
        for (unsigned per = 1; per < N; per *= 2) { Abs a(N, 0); for (unsigned i = 0; i < N; ++i) a[i] = (i / per) & 1; base.push_back(a); }  // alternating
        for (unsigned blk = 0; blk < N / 8; ++blk)
            for (unsigned pat = 1; pat < 256; pat += 37) { Abs a(N, 0); for (unsigned i = 0; i < 8; ++i) a[blk * 8 + i] = (pat >> i) & 1; base.push_back(a); }
        for (std::size_t i = 0; i < base.size(); ++i) {
            Abs c = base[i];
            for (unsigned k = 0; k < N; ++k) c[k] ^= 1;
            if (dedupe.insert(abs_str(base[i])).second) v.push_back(base[i]);
            if (dedupe.insert(abs_str(c)).second) v.push_back(c);
        }
        return v;
    }

    void run() {
        subject = "mask" + vname<V>().substr(3);
        if (!opt().only_subject.empty() && opt().only_subject != subject) return;
        max_depth_reached = 0;
        n_states = n_trans = 0;
        // generators: all-false, all-true, every single lane, alternating, low half
        {
            std::vector<Abs> g;
            g.push_back(Abs(N, 0));
            g.push_back(Abs(N, 1));
            const unsigned step = N <= 16 ? 1 : N / 8;
            for (unsigned i = 0; i < N; i += step) { Abs a(N, 0); a[i] = 1; g.push_back(a); }
            { Abs a(N, 0); for (unsigned i = 0; i < N; i += 2) a[i] = 1; g.push_back(a); }
            { Abs a(N, 0); for (unsigned i = 0; i < N / 2; ++i) a[i] = 1; if (N > 1) g.push_back(a); }
            for (std::size_t i = 0; i < g.size(); ++i) { gens.push_back(raw_of(make(g[i]))); gens_abs.push_back(g[i]); }
        }
        // initial states: bool constructor, array constructor for every member of MASK(N), mask(vector) for special lane values
        for (int b = 0; b < 2; ++b) {
            M m(b != 0);
            Abs e(N, (unsigned char)b);
            ok("construct_from_bool", true);
            if (alpha(m) != e) fail("construct_from_bool", raw_of(m), b ? "true" : "false", 20 + b, "lanes " + abs_str(alpha(m)));
            visit(raw_of(m), 0);
        }
        std::vector<Abs> init = mask_alphabet();
        for (std::size_t i = 0; i < init.size(); ++i) {
            M m = make(init[i]);
            ok("construct_from_array", true);
            if (alpha(m) != init[i]) fail("construct_from_array", raw_of(m), abs_str(init[i]), 30, "lanes " + abs_str(alpha(m)));
            visit(raw_of(m), 0);
        }
        mask_from_vector_specials();
        // breadth-first search
        const unsigned bound = N <= 16 ? 1000 : (opt().thorough ? 2 : 1);
        while (!frontier.empty()) {
            std::pair<Raw, unsigned> cur = frontier.front();
            frontier.pop_front();
            if (cur.second >= bound) continue;
            expand(cur.first, cur.second);
        }
        char note[200];
        std::snprintf(note, sizeof note, "bfs %s: states=%llu transitions=%llu abstract=%llu max_depth=%u closure=%s", subject.c_str(),
                      (unsigned long long)n_states, (unsigned long long)n_trans, (unsigned long long)canon.size(), max_depth_reached, N <= 16 ? "yes" : "bounded");
        reg().notes.push_back(note);
        reg().bfs_states += n_states;
        reg().bfs_transitions += n_trans;
        for (std::map<std::string, Stat*>::iterator it = stats.begin(); it != stats.end(); ++it)
            if (it->second->samples.empty()) add_sample(*it->second, "{\"states\":" + u64s(n_states) + ",\"transitions\":" + u64s(n_trans) + ",\"example_state\":" + jstr(abs_str(alpha(from_raw<M>(gens.back())))) + "}");
    }

    // mask(vector): set exactly where the lane is non-zero (floats: compares unequal to zero, so -0.0 false and NaN true)
    void mask_from_vector_specials() {
        std::vector<S> sp = specials(std::integral_constant<bool, std::is_floating_point<S>::value>());
        for (std::size_t k = 0; k < sp.size(); ++k)
            for (unsigned lane = 0; lane <= N; ++lane) {  // lane == N: the value in every lane
                S lanes[N];
                for (unsigned i = 0; i < N; ++i) lanes[i] = (lane == N || i == lane) ? sp[k] : S(0);
                V v = from_lanes<V>(lanes);
                M m = M(v);
                Abs e(N);
                for (unsigned i = 0; i < N; ++i) e[i] = lanes[i] != S(0);
                ok("mask_from_vector", true);
                if (alpha(m) != e) fail("mask_from_vector", raw_of(m), "value " + hexval(sp[k]) + " lane " + u64s(lane), 40 + k * 131 + lane, "lanes " + abs_str(alpha(m)) + " expected " + abs_str(e));
                visit(raw_of(m), 0);
            }
    }
    static std::vector<S> specials(std::false_type) {
        typedef std::numeric_limits<S> NL;
        S v[] = {S(0), S(1), S(2), NL::min(), NL::max(), S(NL::max() - 1), S(-1), S(0x80), S(0x7f), S(0x55)};
        return std::vector<S>(v, v + sizeof(v) / sizeof(v[0]));
    }
    static std::vector<S> specials(std::true_type) {
        typedef std::numeric_limits<S> NL;
        S v[] = {S(0), -S(0), S(1), S(-1), NL::quiet_NaN(), -NL::quiet_NaN(), NL::infinity(), -NL::infinity(), NL::denorm_min(), -NL::denorm_min(), NL::min(), NL::max(), NL::epsilon()};
        return std::vector<S>(v, v + sizeof(v) / sizeof(v[0]));
    }
};

template<class V>
struct PerType {
    static void run() {
        MaskBFS<V>* b = new MaskBFS<V>();
        struct J { MaskBFS<V>* b; void operator()() { b->run(); } } j = {b};
        FpGuard fpg("mask" + vname<V>().substr(3) + ":bfs");
        int sig = guarded(j);
        if (sig) {
            Stat& s = b->st("bfs_signal");
            s.signal = sig;
            ++s.fails;
            s.fp += sig;
            add_witness(s, "{\"signal\":" + u64s(std::uint64_t(sig)) + "}");
        }
    }
};

}  // namespace vx

int main(int argc, char** argv) {
    if (int rc = vx::parse_args(argc, argv)) return rc;
#if VX_PART < 100
    vx::for_each_int_type<vx::PerType>();
#else
    vx::for_each_float_type<vx::PerType>();
#endif
    {
        const unsigned saved = _mm_getcsr();
        _mm_setcsr(saved | 0x8040u);
        vx::pass_suffix() = "@daz_ftz";
#if VX_PART < 100
        vx::for_each_int_type<vx::PerType>();
#else
        vx::for_each_float_type<vx::PerType>();
#endif
        vx::pass_suffix() = "";
        _mm_setcsr(saved);
    }
    if (vx::opt().replay) {
        // a BFS case is replayed by repeating the (deterministic) search for the subject and reporting the named check
        unsigned long long fails = 0;
        for (std::size_t i = 0; i < vx::reg().stats.size(); ++i)
            if (vx::reg().stats[i]->op == vx::opt().only_op) fails += vx::reg().stats[i]->fails;
        std::printf("{\"replay\":true,\"signal\":0,\"fails\":%llu}\n", fails);
        return 0;
    }
    return vx::write_results("t_mask", vx::part_name());
}
