// ops_fmanip.hpp - operation definitions shared by t_fmanip.cpp and t_scalar.cpp (C16)
#ifndef VX_OPS_FMANIP_HPP
#define VX_OPS_FMANIP_HPP
#include "vx_float.hpp"
#include <climits>

namespace vx {
namespace ofm {


// ---- frexp: two outputs -------------------------------------------------------------------
template<class V> inline V frexp_sig(V a) { typename int_peer<V>::type e; return avel::frexp(a, &e); }
template<class V> inline typename int_peer<V>::type frexp_exp(V a) { typename int_peer<V>::type e; (void)avel::frexp(a, &e); return e; }
template<class S> inline S frexp_sig(Sc<S> a) { typename sint_of<S>::type e = 0; return avel::frexp(a.v, &e); }
template<class S> inline typename sint_of<S>::type frexp_exp(Sc<S> a) { typename sint_of<S>::type e = 0; (void)avel::frexp(a.v, &e); return e; }

template<class S> inline std::uint64_t int_result_bits(long long v) { return std::uint64_t(v) & low_mask(8 * sizeof(S)); }
inline int clamp_int(long long e) { return e > INT_MAX ? INT_MAX : (e < INT_MIN ? INT_MIN : int(e)); }

#define VX_FM_OP(NAME, ARITY, EXPR, MODEL, DOMAIN, SAME, NT)                                     \
    struct NAME : OpBase {                                                                      \
        static const int arity = ARITY;                                                         \
        static const char* name() { return #NAME; }                                             \
        template<class V> static auto apply(V a, V b, V) VX_AUTO(EXPR)                          \
        template<class S> static std::uint64_t model(S a, S b, S) { (void)b; return MODEL; }    \
        template<class S> static bool in_domain(S a, S b, S) { (void)a; (void)b; return DOMAIN; } \
        template<class S> static bool same(std::uint64_t e, std::uint64_t g) { return SAME<S>(e, g); } \
        template<class S> static bool nontrivial(S a, S b, S) { (void)a; (void)b; return NT; }  \
    };
template<class S> inline bool plain_eq(std::uint64_t e, std::uint64_t g) { return e == g; }
template<class S> inline bool special(S a) { return a != a || std::isinf(a) || a == S(0) || std::fabs(a) < std::numeric_limits<S>::min(); }

template<class S> inline std::uint64_t m_frexp_sig(S a) { int e = 0; return bits_of(S(std::frexp(a, &e))); }
template<class S> inline std::uint64_t m_frexp_exp(S a) { int e = 0; (void)std::frexp(a, &e); return int_result_bits<S>(e); }

// the statement: the larger/smaller operand; the other operand when exactly one is NaN (quiet or signalling); NaN when both are
template<class S> inline std::uint64_t m_fmax(S a, S b) { if (a != a) return bits_of(b); if (b != b) return bits_of(a); return bits_of(a < b ? b : a); }
template<class S> inline std::uint64_t m_fmin(S a, S b) { if (a != a) return bits_of(b); if (b != b) return bits_of(a); return bits_of(b < a ? b : a); }

VX_FM_OP(frexp_significand, 1, frexp_sig(a), m_frexp_sig(a), true, same_bits_nan, special(a))
VX_FM_OP(frexp_exponent, 1, frexp_exp(a), m_frexp_exp(a), (a == a && !std::isinf(a)), plain_eq, special(a))
VX_FM_OP(ldexp, 2, avel::ldexp(un(a), bits_as_int_vector(b)), bits_of(S(std::ldexp(a, clamp_int(int_of_bits(b))))), true, same_bits_nan, (special(a) || special(from_bits<S>(model(a, b, b)))))
VX_FM_OP(scalbn, 2, avel::scalbn(un(a), bits_as_int_vector(b)), bits_of(S(std::scalbn(a, clamp_int(int_of_bits(b))))), true, same_bits_nan, (special(a) || special(from_bits<S>(model(a, b, b)))))
VX_FM_OP(ilogb, 1, avel::ilogb(un(a)), int_result_bits<S>(std::ilogb(a)), true, plain_eq, special(a))
// logb(1.0) is computed as a difference of exponents: +0 in <cmath>; AVEL's vector forms give -0 under FE_DOWNWARD (x - x). The exponent is the number
// zero either way: bit for bit under the default mode, by value under a directed mode
template<class S> inline bool logb_same(std::uint64_t e, std::uint64_t g) { return std::fegetround() == FE_TONEAREST ? same_bits_nan<S>(e, g) : same_value_nan<S>(e, g); }
VX_FM_OP(logb, 1, avel::logb(un(a)), bits_of(S(std::logb(a))), true, logb_same, special(a))
VX_FM_OP(frac, 1, avel::frac(un(a)), bits_of(S(a - std::trunc(a))), true, same_value_nan, (special(a) || std::trunc(a) == a))
VX_FM_OP(fmax, 2, avel::fmax(un(a), un(b)), m_fmax(a, b), true, same_value_nan, (a != a || b != b || (a == S(0) && b == S(0))))
VX_FM_OP(fmin, 2, avel::fmin(un(a), un(b)), m_fmin(a, b), true, same_value_nan, (a != a || b != b || (a == S(0) && b == S(0))))
// fdim is stated as max(x - y, 0): where x - y is NaN (a NaN operand, or infinities of equal sign) the statement gives no value, so those tuples are not demanded
VX_FM_OP(fdim, 2, avel::fdim(un(a), un(b)), bits_of(S(a > b ? a - b : S(0))), (a == a && b == b && !(std::isinf(a) && std::isinf(b) && std::signbit(a) == std::signbit(b))), same_value_nan, (!(a > b) || std::isinf(a) || std::isinf(b)))

}  // namespace ofm
}  // namespace vx
#endif
