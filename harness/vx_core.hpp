// vx_core.hpp - shared machinery of the AVEL exploration harnesses (DESIGN.md sections 2, 5, 8).
// C++11 on purpose: the harness is compiled under every language standard AVEL supports.
#ifndef VX_CORE_HPP
#define VX_CORE_HPP

#include <avel/Avel.hpp>

#include <cstdint>
#include <cstring>
#include <cstdio>
#include <cstdlib>
#include <csignal>
#include <csetjmp>
#include <cmath>
#include <cfenv>
#include <ctime>
#include <string>
#include <vector>
#include <type_traits>

#if defined(__SSE__) || defined(__x86_64__)
#include <xmmintrin.h>
#endif

#define VX_NOINLINE __attribute__((noinline))

namespace vx {

//=========================================================================================
// options
//=========================================================================================

struct Options {
    bool thorough;
    unsigned long seed;
    std::string out;
    std::string only_subject;  // empty = all
    std::string only_op;       // empty = all
    bool replay;
    std::vector<std::string> replay_args;  // hex blobs
    unsigned shard_k, shard_n;  // run only the explorations whose running index is k modulo n (n == 0: all)
    unsigned explore_index;
    Options() : thorough(false), seed(0), replay(false), shard_k(0), shard_n(0), explore_index(0) {}
};

inline Options& opt() {
    static Options o;
    return o;
}

// all 2^32 pairs of a 16-bit element type (about 25 s per operation and type): thorough tier, and only in the builds the driver marks with
// -DVX_EXH16 (the configurations of the arm cover); every other configuration class runs the D16 x L16 cross domain
inline bool exh16() {
#ifdef VX_EXH16
    return opt().thorough;
#else
    return false;
#endif
}

// all 2^32 values of a 32-bit or float element type: thorough tier, builds marked -DVX_EXH32 (arm-cover configurations)
inline bool exh32() {
#ifdef VX_EXH32
    return opt().thorough;
#else
    return false;
#endif
}

inline bool selected(const std::string& subject, const std::string& op) {
    Options& o = opt();
    if (!o.only_subject.empty() && o.only_subject != subject) return false;
    if (!o.only_op.empty() && o.only_op != op) return false;
    if (o.shard_n && !o.replay) {
        unsigned idx = o.explore_index++;
        if (idx % o.shard_n != o.shard_k) return false;
    }
    return true;
}

//=========================================================================================
// hashing / hex
//=========================================================================================

inline std::uint64_t mix(std::uint64_t x) {
    x += 0x9E3779B97F4A7C15ull;
    x = (x ^ (x >> 30)) * 0xBF58476D1CE4E5B9ull;
    x = (x ^ (x >> 27)) * 0x94D049BB133111EBull;
    return x ^ (x >> 31);
}

inline std::uint64_t hcomb(std::uint64_t h, std::uint64_t x) { return mix(h ^ mix(x)); }

inline std::string hex_bytes(const void* p, std::size_t n) {
    static const char* d = "0123456789abcdef";
    const unsigned char* c = static_cast<const unsigned char*>(p);
    std::string s;
    s.reserve(2 * n);
    for (std::size_t i = 0; i < n; ++i) {
        s.push_back(d[c[i] >> 4]);
        s.push_back(d[c[i] & 15]);
    }
    return s;
}

inline bool unhex(const std::string& s, void* out, std::size_t n) {
    if (s.size() != 2 * n) return false;
    unsigned char* c = static_cast<unsigned char*>(out);
    for (std::size_t i = 0; i < n; ++i) {
        unsigned v = 0;
        for (int k = 0; k < 2; ++k) {
            char ch = s[2 * i + k];
            unsigned dgt = (ch >= '0' && ch <= '9') ? unsigned(ch - '0')
                         : (ch >= 'a' && ch <= 'f') ? unsigned(ch - 'a' + 10)
                         : (ch >= 'A' && ch <= 'F') ? unsigned(ch - 'A' + 10) : 99u;
            if (dgt == 99u) return false;
            v = v * 16 + dgt;
        }
        c[i] = static_cast<unsigned char>(v);
    }
    return true;
}

template<class T>
inline std::string hexval(T v) {
    // value of a scalar printed as 0x<big-endian hex of its bit pattern>
    unsigned char b[sizeof(T)];
    std::memcpy(b, &v, sizeof(T));
    static const char* d = "0123456789abcdef";
    std::string s = "0x";
    for (std::size_t i = sizeof(T); i-- > 0;) {
        s.push_back(d[b[i] >> 4]);
        s.push_back(d[b[i] & 15]);
    }
    return s;
}

template<class T>
inline std::uint64_t bits_of(T v) {
    typename std::conditional<sizeof(T) == 1, std::uint8_t,
        typename std::conditional<sizeof(T) == 2, std::uint16_t,
            typename std::conditional<sizeof(T) == 4, std::uint32_t, std::uint64_t>::type>::type>::type u;
    static_assert(sizeof(u) == sizeof(T), "scalar size");
    std::memcpy(&u, &v, sizeof(T));
    return u;
}

//=========================================================================================
// type machinery
//=========================================================================================

template<class T, unsigned N, class = void>
struct vexists : std::false_type {};
template<class T, unsigned N>
struct vexists<T, N, typename std::enable_if<(sizeof(avel::Vector<T, N>) > 0)>::type> : std::true_type {};

template<class T> struct scalar_tag;
template<> struct scalar_tag<std::uint8_t>  { static const char* s() { return "8u"; } };
template<> struct scalar_tag<std::int8_t>   { static const char* s() { return "8i"; } };
template<> struct scalar_tag<std::uint16_t> { static const char* s() { return "16u"; } };
template<> struct scalar_tag<std::int16_t>  { static const char* s() { return "16i"; } };
template<> struct scalar_tag<std::uint32_t> { static const char* s() { return "32u"; } };
template<> struct scalar_tag<std::int32_t>  { static const char* s() { return "32i"; } };
template<> struct scalar_tag<std::uint64_t> { static const char* s() { return "64u"; } };
template<> struct scalar_tag<std::int64_t>  { static const char* s() { return "64i"; } };
template<> struct scalar_tag<float>         { static const char* s() { return "32f"; } };
template<> struct scalar_tag<double>        { static const char* s() { return "64f"; } };

template<class V> struct vname_impl;
template<class V>
inline std::string vname() { return vname_impl<V>::get(); }
// a scalar dressed as a width-1 "vector", so that the scalar overloads of avel/Scalar.hpp run through the same explorers
template<class S>
struct Sc {
    typedef S scalar;
    static const std::uint32_t width = 1;
    S v;
};
// converts to exactly S and to nothing else, so that a scalar overload is only found when AVEL declares it
// for this very element type (no silent promotion of uint8_t to the int32_t overload)
template<class S>
struct Exact {
    S v;
    template<class T, class = typename std::enable_if<std::is_same<T, S>::value>::type>
    operator T() const { return v; }
};
template<class S> inline Exact<S> un(Sc<S> x) { Exact<S> e = {x.v}; return e; }
template<class T, std::uint32_t N> inline avel::Vector<T, N> un(avel::Vector<T, N> v) { return v; }

template<class V> struct vname_impl {
    static std::string get() {
        char buf[32];
        std::snprintf(buf, sizeof buf, "vec%ux%s", unsigned(V::width), scalar_tag<typename V::scalar>::s());
        return buf;
    }
};
template<class S> struct vname_impl<Sc<S> > {
    static std::string get() { return std::string("scalar") + scalar_tag<S>::s(); }
};

template<class S>
inline std::string sname() { return std::string("scalar") + scalar_tag<S>::s(); }

template<class S> struct uint_of {
    typedef typename std::conditional<sizeof(S) == 1, std::uint8_t,
        typename std::conditional<sizeof(S) == 2, std::uint16_t,
            typename std::conditional<sizeof(S) == 4, std::uint32_t, std::uint64_t>::type>::type>::type type;
};
template<class S> struct sint_of {
    typedef typename std::make_signed<typename uint_of<S>::type>::type type;
};

template<class V>
inline V from_lanes(const typename V::scalar* a) {
    static_assert(sizeof(V) == V::width * sizeof(typename V::scalar), "Vector<T,N> must be N*sizeof(T) bytes");
    V v;
    std::memcpy(static_cast<void*>(&v), a, sizeof(V));
    return v;
}

template<class V>
inline void to_lanes(const V& v, typename V::scalar* out) {
    std::memcpy(out, static_cast<const void*>(&v), sizeof(V));
}

// mask lanes: 0 = clear, 1 = set, 2 = dirty representation (neither canonical pattern)
template<class M, bool KREG = std::is_integral<typename M::primitive>::value>
struct mask_codec;

template<class M>
struct mask_codec<M, true> {
    // bool (width 1) or __mmaskN
    static void get(const M& m, std::uint8_t* out) {
        std::uint64_t raw = 0;
        typedef typename M::primitive P;  // the object may be over-aligned (alignas), the k-register is its first member
        static_assert(sizeof(P) <= 8 && sizeof(P) <= sizeof(M), "k-register mask");
        std::memcpy(&raw, static_cast<const void*>(&m), sizeof(P));
        const unsigned W = M::width;
        for (unsigned i = 0; i < W; ++i) out[i] = std::uint8_t((raw >> i) & 1);
        if (W < 64 && (raw >> W) != 0) {
            // bits above the width set: representation is dirty; flag every lane whose
            // index has a stray bit aliased (report on lane 0 for simplicity)
            out[0] = 2;
        }
    }
    static M make(const std::uint8_t* in) {
        std::uint64_t raw = 0;
        for (unsigned i = 0; i < M::width; ++i) raw |= std::uint64_t(in[i] & 1) << i;
        M m;
        std::memset(static_cast<void*>(&m), 0, sizeof(M));
        std::memcpy(static_cast<void*>(&m), &raw, sizeof(typename M::primitive));
        return m;
    }
};

template<class M>
struct mask_codec<M, false> {
    static void get(const M& m, std::uint8_t* out) {
        const unsigned W = M::width;
        const unsigned B = sizeof(M) / W;
        unsigned char raw[sizeof(M)];
        std::memcpy(raw, static_cast<const void*>(&m), sizeof(M));
        for (unsigned i = 0; i < W; ++i) {
            unsigned ones = 0, zeros = 0;
            for (unsigned k = 0; k < B; ++k) {
                ones += raw[i * B + k] == 0xFF;
                zeros += raw[i * B + k] == 0x00;
            }
            out[i] = ones == B ? 1 : zeros == B ? 0 : 2;
        }
    }
    static M make(const std::uint8_t* in) {
        const unsigned W = M::width;
        const unsigned B = sizeof(M) / W;
        unsigned char raw[sizeof(M)];
        for (unsigned i = 0; i < W; ++i)
            for (unsigned k = 0; k < B; ++k) raw[i * B + k] = in[i] ? 0xFF : 0x00;
        M m;
        std::memcpy(static_cast<void*>(&m), raw, sizeof(M));
        return m;
    }
};

template<class M>
inline void mask_lanes(const M& m, std::uint8_t* out) { mask_codec<M>::get(m, out); }
template<class M>
inline M make_mask(const std::uint8_t* in) { return mask_codec<M>::make(in); }

//=========================================================================================
// statistics / registry
//=========================================================================================

struct Witness {
    std::string detail;  // json object text
};

struct Stat {
    std::string subject, op, domain;
    std::uint64_t evals, distinct, nontrivial, fails, fp, digest;
    int signal;
    std::vector<std::string> witnesses;
    std::vector<std::string> samples;
    Stat() : evals(0), distinct(0), nontrivial(0), fails(0), fp(0), digest(0), signal(0) {}
};

struct Registry {
    std::vector<Stat*> stats;
    std::vector<std::string> notes;
    std::vector<std::string> mxcsr_changes;
    double t0;
    std::uint64_t bfs_states, bfs_transitions;  // state explorers: distinct states visited / transitions executed
    Registry() : t0(0), bfs_states(0), bfs_transitions(0) {}
};

inline Registry& reg() {
    static Registry r;
    return r;
}

inline Stat& new_stat(const std::string& subject, const std::string& op, const std::string& domain) {
    Stat* s = new Stat();
    s->subject = subject;
    s->op = op;
    s->domain = domain;
    reg().stats.push_back(s);
    return *s;
}

inline std::string jstr(const std::string& s) {
    std::string o = "\"";
    for (std::size_t i = 0; i < s.size(); ++i) {
        char c = s[i];
        if (c == '"' || c == '\\') { o.push_back('\\'); o.push_back(c); }
        else if (c == '\n') o += "\\n";
        else if (static_cast<unsigned char>(c) < 0x20) { char b[8]; std::snprintf(b, sizeof b, "\\u%04x", c); o += b; }
        else o.push_back(c);
    }
    o.push_back('"');
    return o;
}

inline std::string u64s(std::uint64_t v) {
    char b[32];
    std::snprintf(b, sizeof b, "%llu", static_cast<unsigned long long>(v));
    return b;
}
inline std::string h64s(std::uint64_t v) {
    char b[32];
    std::snprintf(b, sizeof b, "\"%016llx\"", static_cast<unsigned long long>(v));
    return b;
}

inline double now_s() {
    timespec ts;
    clock_gettime(CLOCK_MONOTONIC, &ts);
    return double(ts.tv_sec) + 1e-9 * double(ts.tv_nsec);
}

inline void add_witness(Stat& st, const std::string& json_obj) {
    if (st.witnesses.size() < 4) st.witnesses.push_back(json_obj);
}
inline void add_sample(Stat& st, const std::string& json_obj) {
    if (st.samples.size() < 3) st.samples.push_back(json_obj);
}

inline int write_results(const char* tu, const char* part) {
    Registry& r = reg();
    if (opt().replay) return 0;  // replay prints its own verdict line
    FILE* f = opt().out.empty() ? stdout : std::fopen(opt().out.c_str(), "w");
    if (!f) { std::perror("open out"); return 2; }
    std::fprintf(f, "{\"tu\":%s,\"part\":%s,\"tier\":%s,\"wall_s\":%.3f,\"bfs_states\":%s,\"bfs_transitions\":%s,\n \"stats\":[\n", jstr(tu).c_str(),
                 jstr(part).c_str(), opt().thorough ? "\"thorough\"" : "\"quick\"", now_s() - r.t0, u64s(r.bfs_states).c_str(), u64s(r.bfs_transitions).c_str());
    for (std::size_t i = 0; i < r.stats.size(); ++i) {
        const Stat& s = *r.stats[i];
        std::fprintf(f, "  {\"subject\":%s,\"op\":%s,\"domain\":%s,\"evals\":%s,\"distinct\":%s,\"nontrivial\":%s,\"fails\":%s,\"fp\":%s,\"digest\":%s,\"signal\":%d,\n   \"witnesses\":[",
                     jstr(s.subject).c_str(), jstr(s.op).c_str(), jstr(s.domain).c_str(), u64s(s.evals).c_str(), u64s(s.distinct).c_str(),
                     u64s(s.nontrivial).c_str(), u64s(s.fails).c_str(), h64s(s.fp).c_str(), h64s(s.digest).c_str(), s.signal);
        for (std::size_t k = 0; k < s.witnesses.size(); ++k) std::fprintf(f, "%s%s", k ? "," : "", s.witnesses[k].c_str());
        std::fprintf(f, "],\n   \"samples\":[");
        for (std::size_t k = 0; k < s.samples.size(); ++k) std::fprintf(f, "%s%s", k ? "," : "", s.samples[k].c_str());
        std::fprintf(f, "]}%s\n", i + 1 < r.stats.size() ? "," : "");
    }
    std::fprintf(f, " ],\n \"mxcsr_changes\":[");
    for (std::size_t i = 0; i < r.mxcsr_changes.size(); ++i) std::fprintf(f, "%s%s", i ? "," : "", jstr(r.mxcsr_changes[i]).c_str());
    std::fprintf(f, "],\n \"notes\":[");
    for (std::size_t i = 0; i < r.notes.size(); ++i) std::fprintf(f, "%s%s", i ? "," : "", jstr(r.notes[i]).c_str());
    std::fprintf(f, "]}\n");
    if (f != stdout) std::fclose(f);
    return 0;
}

//=========================================================================================
// signals and floating-point environment
//=========================================================================================

extern "C" {
    typedef void (*vx_sighandler)(int);
}

inline sigjmp_buf& jmpbuf() {
    static sigjmp_buf b;
    return b;
}
inline volatile sig_atomic_t& armed() {
    static volatile sig_atomic_t a = 0;
    return a;
}
inline void on_signal(int sig) {
    if (armed()) {
        armed() = 0;
        siglongjmp(jmpbuf(), sig);
    }
    // not inside a guarded region: die with the default action
    signal(sig, SIG_DFL);
    raise(sig);
}
inline void install_signals() {
    struct sigaction sa;
    std::memset(&sa, 0, sizeof sa);
    sa.sa_handler = on_signal;
    sa.sa_flags = SA_NODEFER;
    sigemptyset(&sa.sa_mask);
    sigaction(SIGSEGV, &sa, 0);
    sigaction(SIGBUS, &sa, 0);
    sigaction(SIGFPE, &sa, 0);
    sigaction(SIGILL, &sa, 0);
}

// run f() with signals turned into a return value (0 = no signal).
// f is called through an opaque, non-inlined function: otherwise the optimiser may hoist a trapping instruction of an inlined f
// (an integer division, say) above the `armed = 1` store, and the handler would treat the signal as one outside any guard.
template<class F>
VX_NOINLINE void call_opaque(F& f) {
    __asm__ __volatile__("" ::: "memory");
    f();
    __asm__ __volatile__("" ::: "memory");
}
template<class F>
VX_NOINLINE int guarded(F& f) {
    int sig = sigsetjmp(jmpbuf(), 0);  // SA_NODEFER handler: no mask to restore, and no sigprocmask system call per guard
    if (sig == 0) {
        armed() = 1;
        __asm__ __volatile__("" ::: "memory");
        call_opaque(f);
        __asm__ __volatile__("" ::: "memory");
        armed() = 0;
        return 0;
    }
    return sig;
}

inline unsigned fp_control() {
    unsigned csr = 0;
#if defined(__SSE__) || defined(__x86_64__)
    csr = _mm_getcsr() & 0xFFC0u;  // exception masks, rounding control, FTZ, DAZ
#endif
    unsigned short cw = 0;
    __asm__ __volatile__("fnstcw %0" : "=m"(cw));
    return csr | (unsigned(cw) << 16);
}
inline void fp_restore(unsigned ctl) {
#if defined(__SSE__) || defined(__x86_64__)
    _mm_setcsr((_mm_getcsr() & ~0xFFC0u) | (ctl & 0xFFC0u));
#endif
    unsigned short cw = static_cast<unsigned short>(ctl >> 16);
    __asm__ __volatile__("fldcw %0" : : "m"(cw));
}

struct FpGuard {
    unsigned before;
    std::string what;
    explicit FpGuard(const std::string& w) : before(fp_control()), what(w) {}
    ~FpGuard() {
        unsigned after = fp_control();
        if (after != before) {
            char b[64];
            std::snprintf(b, sizeof b, " before=%08x after=%08x", before, after);
            reg().mxcsr_changes.push_back(what + b);
            fp_restore(before);
        }
    }
};

//=========================================================================================
// command line
//=========================================================================================

inline int parse_args(int argc, char** argv) {
    Options& o = opt();
    for (int i = 1; i < argc; ++i) {
        std::string a = argv[i];
        if (a == "--tier" && i + 1 < argc) { o.thorough = std::string(argv[++i]) == "thorough"; }
        else if (a == "--seed" && i + 1 < argc) { o.seed = std::strtoul(argv[++i], 0, 10); }
        else if (a == "--out" && i + 1 < argc) { o.out = argv[++i]; }
        else if (a == "--only" && i + 1 < argc) {
            std::string s = argv[++i];
            std::size_t c = s.find(':');
            o.only_subject = s.substr(0, c);
            if (c != std::string::npos) o.only_op = s.substr(c + 1);
        }
        else if (a == "--replay") { o.replay = true; }
        else if (a == "--shard" && i + 1 < argc) { std::sscanf(argv[++i], "%u/%u", &o.shard_k, &o.shard_n); }
        else if (a == "--arg" && i + 1 < argc) { o.replay_args.push_back(argv[++i]); }
        else { std::fprintf(stderr, "unknown argument %s\n", a.c_str()); return 2; }
    }
    reg().t0 = now_s();
    install_signals();
    return 0;
}

//=========================================================================================
// type iteration: F<V>::run() for every existing Vector<T,N>
//=========================================================================================

template<template<class> class F, class T, unsigned N, bool E = vexists<T, N>::value>
struct run_if { static void go() {} };
template<template<class> class F, class T, unsigned N>
struct run_if<F, T, N, true> { static void go() { F<avel::Vector<T, N> >::run(); } };

template<class T>
struct max_width {
    static const unsigned value = vexists<T, 64>::value ? 64 : vexists<T, 32>::value ? 32 : vexists<T, 16>::value ? 16 :
                                  vexists<T, 8>::value ? 8 : vexists<T, 4>::value ? 4 : vexists<T, 2>::value ? 2 : 1;
};

template<template<class> class F, class T>
inline void for_each_width() {
    run_if<F, T, 1>::go();
    run_if<F, T, 2>::go();
    run_if<F, T, 4>::go();
    run_if<F, T, 8>::go();
    run_if<F, T, 16>::go();
    run_if<F, T, 32>::go();
    run_if<F, T, 64>::go();
}

}  // namespace vx

// VX_PART selects the element family instantiated by a TU: 8, 16, 32, 64 (integers), 132 (float), 164 (double)
#ifndef VX_PART
#define VX_PART 8
#endif

namespace vx {
#if VX_PART == 8
typedef std::uint8_t part_u;
typedef std::int8_t part_i;
inline const char* part_name() { return "8"; }
#elif VX_PART == 16
typedef std::uint16_t part_u;
typedef std::int16_t part_i;
inline const char* part_name() { return "16"; }
#elif VX_PART == 32
typedef std::uint32_t part_u;
typedef std::int32_t part_i;
inline const char* part_name() { return "32"; }
#elif VX_PART == 64
typedef std::uint64_t part_u;
typedef std::int64_t part_i;
inline const char* part_name() { return "64"; }
#elif VX_PART == 132
typedef float part_f;
inline const char* part_name() { return "f32"; }
#elif VX_PART == 164
typedef double part_f;
inline const char* part_name() { return "f64"; }
#endif

#if VX_PART < 100
template<template<class> class F>
inline void for_each_int_type() {
    for_each_width<F, part_u>();
    for_each_width<F, part_i>();
}
template<template<class> class F>
inline void for_each_int_scalar() {
    F<Sc<part_u> >::run();
    F<Sc<part_i> >::run();
}
#else
template<template<class> class F>
inline void for_each_float_type() {
    for_each_width<F, part_f>();
}
template<template<class> class F>
inline void for_each_float_scalar() {
    F<Sc<part_f> >::run();
}
#endif
}  // namespace vx

#endif
