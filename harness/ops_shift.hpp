// ops_shift.hpp - shifts and rotations by one scalar amount for the whole vector; shared by t_bitwise.cpp (C04) and t_scalar.cpp (C16)
#ifndef VX_OPS_SHIFT_HPP
#define VX_OPS_SHIFT_HPP
#include "vx_bitmodels.hpp"
#include <climits>

namespace vx {

// ---- uniform scalar amounts: the amount is table[index], index = lane 0 of b (low byte) and c (high byte) ----------------

inline const std::vector<long long>& shift_table(unsigned B) {
    static std::vector<long long> t[4];
    std::vector<long long>& v = t[B == 8 ? 0 : B == 16 ? 1 : B == 32 ? 2 : 3];
    if (v.empty()) for (unsigned s = 0; s <= B; ++s) v.push_back(s);
    return v;
}
inline const std::vector<long long>& rot_table(unsigned B) {
    static std::vector<long long> t[4];
    std::vector<long long>& v = t[B == 8 ? 0 : B == 16 ? 1 : B == 32 ? 2 : 3];
    if (v.empty()) {
        for (unsigned s = 0; s <= 2 * B + 1; ++s) v.push_back(s);
        for (unsigned r = 0; r < B; r += (B > 16 ? 5 : 3)) { v.push_back(3ll * B + r); v.push_back(255ll * B + r); }
        for (long long s = 1; s <= (long long)B + 1; ++s) v.push_back(-s);
        const long long big[] = {1ll << 31, -(1ll << 31), (1ll << 31) + 3, -(1ll << 31) - 3, 1ll << 62, -(1ll << 62), (1ll << 62) + 7,
                                 LLONG_MAX, LLONG_MIN, LLONG_MIN + 1, (1ll << 32) + 1, -(1ll << 32) - 1, 0x100, 0x1ff, -0x100, -0x101};
        for (unsigned i = 0; i < sizeof(big) / sizeof(big[0]); ++i) v.push_back(big[i]);
    }
    return v;
}
template<class S> inline unsigned idx_of(S b, S c) { return unsigned(bits_of(b) & 0xff) | (unsigned(bits_of(c) & 0xff) << 8); }
template<class V> inline unsigned idx_lane0(V b, V c) {
    typename V::scalar tb[V::width], tc[V::width];
    to_lanes(b, tb);
    to_lanes(c, tc);
    return idx_of(tb[0], tc[0]);
}
template<class V> inline long long sh_amt(V b, V c) { unsigned i = idx_lane0(b, c); const std::vector<long long>& t = shift_table(8 * sizeof(typename V::scalar)); return i < t.size() ? t[i] : 0; }
template<class V> inline long long rt_amt(V b, V c) { unsigned i = idx_lane0(b, c); const std::vector<long long>& t = rot_table(8 * sizeof(typename V::scalar)); return i < t.size() ? t[i] : 0; }

#define VX_SHS_OP(NAME, EXPR, TABLE, MODEL)                                                     \
    struct NAME : OpBase {                                                                      \
        static const int arity = 3;                                                             \
        static const bool lane_pass = false;                                                    \
        static const char* name() { return #NAME; }                                             \
        template<class V> static auto apply(V a, V b, V c) VX_AUTO(EXPR)                        \
        template<class S> static std::uint64_t model(S a, S b, S c) { const long long s = TABLE(nbits<S>())[idx_of(b, c)]; (void)s; return MODEL; } \
        template<class S> static bool in_domain(S, S b, S c) { return idx_of(b, c) < TABLE(nbits<S>()).size(); } \
        template<class S> static bool nontrivial(S a, S b, S c) { const long long s = TABLE(nbits<S>())[idx_of(b, c)]; return shift_nt(a, mod_bits(s, nbits<S>())) || s < 0 || s > (long long)nbits<S>(); } \
    };
VX_SHS_OP(shl_scalar, a << sh_amt(b, c), shift_table, m_shl(a, unsigned(s)))
VX_SHS_OP(shr_scalar, a >> sh_amt(b, c), shift_table, m_shr(a, unsigned(s)))
VX_SHS_OP(shl_scalar_assign, V(a <<= sh_amt(b, c)), shift_table, m_shl(a, unsigned(s)))
VX_SHS_OP(shr_scalar_assign, V(a >>= sh_amt(b, c)), shift_table, m_shr(a, unsigned(s)))
VX_SHS_OP(rotl_scalar, avel::rotl(un(a), rt_amt(b, c)), rot_table, m_rotl(a, mod_bits(s, nbits<S>())))
VX_SHS_OP(rotr_scalar, avel::rotr(un(a), rt_amt(b, c)), rot_table, m_rotr(a, mod_bits(s, nbits<S>())))
// the scalar-wrapper overloads of sh_amt/rt_amt (Sc<S> has no lanes to unpack)
template<class S> inline long long sh_amt(Sc<S> b, Sc<S> c) { unsigned i = idx_of(b.v, c.v); const std::vector<long long>& t = shift_table(8 * sizeof(S)); return i < t.size() ? t[i] : 0; }
template<class S> inline long long rt_amt(Sc<S> b, Sc<S> c) { unsigned i = idx_of(b.v, c.v); const std::vector<long long>& t = rot_table(8 * sizeof(S)); return i < t.size() ? t[i] : 0; }

// values (padded to a multiple of 64 so that a vector never straddles two amounts) x amount index
template<class S>
struct DomUniform {
    std::vector<S> A;
    unsigned namt;
    std::string nm;
    DomUniform(const std::vector<S>& a, unsigned n, const std::string& name) : A(a), namt(n), nm(name) {
        std::uint64_t k = 0x0123456789ABCDEFull;
        while (A.size() % 64) { typename uint_of<S>::type u = (typename uint_of<S>::type)(k); S s; std::memcpy(&s, &u, sizeof s); A.push_back(s); k = k * 6364136223846793005ull + 1442695040888963407ull; }
    }
    std::uint64_t size() const { return std::uint64_t(A.size()) * namt; }
    void get(std::uint64_t i, S& a, S& b, S& c) const {
        a = A[i % A.size()];
        unsigned idx = unsigned(i / A.size());
        typename uint_of<S>::type lo = (typename uint_of<S>::type)(idx & 0xff), hi = (typename uint_of<S>::type)(idx >> 8);
        std::memcpy(&b, &lo, sizeof b);
        std::memcpy(&c, &hi, sizeof c);
    }
    std::string name() const { return nm; }
};

}  // namespace vx
#endif
