// t_alloc.cpp - C18: explorer B + C on the real Aligned_allocator. The C allocation functions are interposed (vx_malloc.c);
// the address residue malloc returns modulo the alignment is an environment choice enumerated by the explorer.
// State = multiset of live allocations (n, residue); every transition is replayed on a fresh model heap.
#include <avel/Aligned_allocator.hpp>
#include "vx_core.hpp"
#include <map>
#include <set>
#include <deque>
#include <algorithm>

extern "C" {
struct vxm_block { unsigned char* user; std::size_t size; std::size_t align; int live; int api; };
void vxm_track(int on);
void vxm_env(std::size_t align, std::size_t residue);
void vxm_reset(void);
int vxm_invalid_frees(void);
int vxm_double_frees(void);
int vxm_calls(void);
int vxm_nblocks(void);
int vxm_live(void);
const vxm_block* vxm_block_at(int i);
int vxm_find(const void* p, std::size_t len);
int vxm_redzone_damage(void);
}

namespace vx {

template<unsigned SZ, unsigned AL> struct alignas(AL) Elem { unsigned char b[SZ]; };

struct Live { unsigned n; unsigned res; };  // element count, residue index
inline bool operator<(const Live& a, const Live& b) { return a.n != b.n ? a.n < b.n : a.res < b.res; }
typedef std::vector<Live> State;  // sorted

inline std::string state_str(const State& s) {
    std::string r = "[";
    for (std::size_t i = 0; i < s.size(); ++i) r += (i ? "," : "") + u64s(s[i].n) + "@r" + u64s(s[i].res);
    return r + "]";
}

template<class T, std::size_t A>
struct AllocBFS {
    typedef avel::Aligned_allocator<T, A> Alloc;
    std::string subject;
    std::map<std::string, Stat*> stats;
    std::vector<std::size_t> residues;
    std::vector<unsigned> counts;
    std::uint64_t n_states, n_trans;

    Stat& st(const char* op) {
        std::map<std::string, Stat*>::iterator it = stats.find(op);
        if (it != stats.end()) return *it->second;
        Stat& s = new_stat(subject, op, "BFS over multisets of <= 3 live allocations (n, malloc residue); n in {0,1,2,3,7,8,9,16,17,4096/sizeof(T)+1}");
        stats[op] = &s;
        return s;
    }
    void ok(const char* op, bool nt) { Stat& s = st(op); ++s.evals; ++s.distinct; if (nt) ++s.nontrivial; }
    void fail(const char* op, const State& from, const std::string& what, std::uint64_t salt) {
        Stat& s = st(op);
        ++s.fails;
        std::uint64_t h = salt;
        for (std::size_t i = 0; i < from.size(); ++i) h = hcomb(h, from[i].n * 16 + from[i].res);
        s.fp += h;
        if (s.witnesses.size() < 4) add_witness(s, "{\"state\":" + jstr(state_str(from)) + ",\"what\":" + jstr(what) + ",\"args\":[]}");
    }

    struct Blk { T* p; unsigned n; unsigned char tag; };

    static void fill(const Blk& b) { std::memset(static_cast<void*>(b.p), b.tag, std::size_t(b.n) * sizeof(T)); }
    static bool intact(const Blk& b) {
        const unsigned char* c = reinterpret_cast<const unsigned char*>(b.p);
        for (std::size_t i = 0; i < std::size_t(b.n) * sizeof(T); ++i) if (c[i] != b.tag) return false;
        return true;
    }

    // performs allocate(n) under the residue choice and checks every clause; returns false on a fatal problem
    bool do_alloc(Alloc& al, unsigned n, unsigned res, std::vector<Blk>& live, const State& from, const char* op, bool count) {
        vxm_env(A, residues[res]);
        vxm_track(1);
        T* p = al.allocate(n);
        vxm_track(0);
        const bool nt = (std::size_t(n) * sizeof(T)) % A != 0 || (std::size_t(n) * sizeof(T)) % sizeof(std::size_t) != 0 || residues[res] != 0;
        if (count) ok(op, nt);
        const std::string what0 = "allocate(" + u64s(n) + ") residue " + u64s(residues[res]);
        if (n != 0 && p == 0) { if (count) fail(op, from, what0 + ": returned null", 1); return false; }
        if (reinterpret_cast<std::uintptr_t>(p) % A != 0) { if (count) fail(op, from, what0 + ": pointer not aligned to " + u64s(A), 2); }
        if (n != 0) {
            int idx = vxm_find(p, std::size_t(n) * sizeof(T));
            if (idx < 0) { if (count) fail(op, from, what0 + ": the n*sizeof(T) bytes are not inside one live block obtained from the C allocator", 3); return false; }
            for (std::size_t i = 0; i < live.size(); ++i) {
                const unsigned char *a0 = reinterpret_cast<const unsigned char*>(live[i].p), *a1 = a0 + std::size_t(live[i].n) * sizeof(T);
                const unsigned char *b0 = reinterpret_cast<const unsigned char*>(p), *b1 = b0 + std::size_t(n) * sizeof(T);
                if (live[i].n && a0 < b1 && b0 < a1) { if (count) fail(op, from, what0 + ": overlaps another live allocation", 4); return false; }
            }
        }
        Blk b = {p, n, static_cast<unsigned char>(0x31 + 17 * live.size())};
        fill(b);
        live.push_back(b);
        for (std::size_t i = 0; i + 1 < live.size(); ++i)
            if (!intact(live[i])) { if (count) fail(op, from, what0 + ": writing the new block changed another live allocation", 5); }
        // the allocator's own bookkeeping (the offset word of the over-allocation path) must survive the user's writes: checked at deallocate
        return true;
    }

    void do_free(Alloc& al, std::vector<Blk>& live, std::size_t i, const State& from, const char* op, bool count) {
        Blk b = live[i];
        const int live_before = vxm_live();
        const int inv0 = vxm_invalid_frees(), dbl0 = vxm_double_frees();
        vxm_track(1);
        al.deallocate(b.p, b.n);
        vxm_track(0);
        live.erase(live.begin() + i);
        if (count) ok(op, true);
        const std::string what0 = "deallocate(block of " + u64s(b.n) + ")";
        if (vxm_invalid_frees() != inv0) { if (count) fail(op, from, what0 + ": free() received a pointer that no allocation function returned", 6); }
        if (vxm_double_frees() != dbl0) { if (count) fail(op, from, what0 + ": double free", 7); }
        if (b.p != 0 && vxm_live() != live_before - 1) { if (count) fail(op, from, what0 + ": did not release exactly one block", 8); }
        for (std::size_t k = 0; k < live.size(); ++k)
            if (!intact(live[k])) { if (count) fail(op, from, what0 + ": changed another live allocation", 9); }
    }

    // replay `from`, apply one transition, check, clean up
    void transition(const State& from, int kind, unsigned a, unsigned b, State& to) {
        ++n_trans;
        vxm_reset();
        Alloc al;
        std::vector<Blk> live;
        bool good = true;
        for (std::size_t i = 0; i < from.size() && good; ++i) good = do_alloc(al, from[i].n, from[i].res, live, from, "allocate", false);
        to = from;
        if (good) {
            if (kind == 0) {
                if (do_alloc(al, counts[a], b, live, from, "allocate", true)) { Live l = {counts[a], b}; to.push_back(l); std::sort(to.begin(), to.end()); }
            } else {
                do_free(al, live, a, from, "deallocate", true);
                to.erase(to.begin() + a);
            }
        }
        // clean up in reverse order; then: nothing leaked, no red zone touched
        while (!live.empty()) do_free(al, live, live.size() - 1, from, "deallocate", false);
        ok("history_end", true);
        if (vxm_live() != 0) fail("history_end", from, "blocks obtained from the C allocator were never freed (leak): " + u64s(std::uint64_t(vxm_live())), 10 + kind);
        if (vxm_redzone_damage() != 0) fail("history_end", from, "bytes outside the blocks obtained from the C allocator were written: " + u64s(std::uint64_t(vxm_redzone_damage())), 20 + kind);
        if (vxm_invalid_frees() || vxm_double_frees()) fail("history_end", from, "invalid or double free during clean-up", 30 + kind);
    }

    void containers() {
        // std::vector growth / copy / shrink with the allocator, under every residue
        for (unsigned r = 0; r < residues.size(); ++r) {
            vxm_reset();
            vxm_env(A, residues[r]);
            State none;
            {
                vxm_track(1);
                bool aligned_ok = true, data_ok = true;
                {
                    std::vector<T, Alloc> v;
                    for (unsigned k = 0; k < 37; ++k) {
                        T e;
                        std::memset(static_cast<void*>(&e), int(k + 1), sizeof e);
                        v.push_back(e);
                        aligned_ok = aligned_ok && reinterpret_cast<std::uintptr_t>(v.data()) % A == 0;
                    }
                    std::vector<T, Alloc> w(v);
                    aligned_ok = aligned_ok && reinterpret_cast<std::uintptr_t>(w.data()) % A == 0;
                    for (unsigned k = 0; k < 37; ++k) data_ok = data_ok && reinterpret_cast<unsigned char*>(&w[k])[0] == static_cast<unsigned char>(k + 1) && reinterpret_cast<unsigned char*>(&v[k])[sizeof(T) - 1] == static_cast<unsigned char>(k + 1);
                    v.clear();
                    v.shrink_to_fit();
                    w.resize(3);
                    w.shrink_to_fit();
                    aligned_ok = aligned_ok && (w.data() == 0 || reinterpret_cast<std::uintptr_t>(w.data()) % A == 0);
                }
                vxm_track(0);
                ok("container_vector", true);
                if (!aligned_ok) fail("container_vector", none, "std::vector data() not aligned, residue " + u64s(residues[r]), 40 + r);
                if (!data_ok) fail("container_vector", none, "std::vector contents corrupted, residue " + u64s(residues[r]), 50 + r);
                if (vxm_live() != 0 || vxm_invalid_frees() || vxm_double_frees() || vxm_redzone_damage())
                    fail("container_vector", none, "leak / invalid free / red-zone damage after std::vector scenario, residue " + u64s(residues[r]), 60 + r);
            }
        }
    }

    void run() {
        char nm[64];
        std::snprintf(nm, sizeof nm, "alloc<T%u,A%u>", unsigned(sizeof(T)), unsigned(A));
        subject = nm;
        if (!opt().only_subject.empty() && opt().only_subject != subject) return;
        n_states = n_trans = 0;
        // environment menu: what malloc's address is modulo A (multiples of 16, as glibc guarantees); aligned calls: 0 or A modulo 2A
        {
            std::set<std::size_t> r;
            r.insert(0);
            if (A > 16) { r.insert(16); r.insert(A / 2); r.insert(A - 16); }
            else r.insert(A);  // for the aligned family: odd multiple of A
            residues.assign(r.begin(), r.end());
        }
        {
            unsigned c[] = {0, 1, 2, 3, 7, 8, 9, 16, 17, unsigned(4096 / sizeof(T) + 1)};
            counts.assign(c, c + sizeof(c) / sizeof(c[0]));
            if (!opt().thorough) { unsigned q[] = {0, 1, 3, 8, 17, unsigned(4096 / sizeof(T) + 1)}; counts.assign(q, q + 6); }
        }
        const unsigned max_live = opt().thorough ? 3 : 2;
        std::set<std::vector<std::pair<unsigned, unsigned> > > seen;
        std::deque<State> frontier;
        frontier.push_back(State());
        seen.insert(std::vector<std::pair<unsigned, unsigned> >());
        while (!frontier.empty()) {
            State cur = frontier.front();
            frontier.pop_front();
            ++n_states;
            State nxt;
            if (cur.size() < max_live)
                for (unsigned a = 0; a < counts.size(); ++a)
                    for (unsigned r = 0; r < residues.size(); ++r) {
                        transition(cur, 0, a, r, nxt);
                        std::vector<std::pair<unsigned, unsigned> > key;
                        for (std::size_t i = 0; i < nxt.size(); ++i) key.push_back(std::make_pair(nxt[i].n, nxt[i].res));
                        if (nxt.size() == cur.size() + 1 && seen.insert(key).second) frontier.push_back(nxt);
                    }
            for (unsigned i = 0; i < cur.size(); ++i) transition(cur, 1, i, 0, nxt);  // deallocate any live block, in any order
        }
        containers();
        char note[160];
        std::snprintf(note, sizeof note, "bfs %s: states=%llu transitions=%llu residues=%u", subject.c_str(), (unsigned long long)n_states, (unsigned long long)n_trans, unsigned(residues.size()));
        reg().notes.push_back(note);
        reg().bfs_states += n_states;
        reg().bfs_transitions += n_trans;
        for (std::map<std::string, Stat*>::iterator it = stats.begin(); it != stats.end(); ++it)
            if (it->second->samples.empty()) add_sample(*it->second, "{\"states\":" + u64s(n_states) + ",\"transitions\":" + u64s(n_trans) + "}");
    }
};

template<class T, std::size_t A, bool OK = (A <= 4096)>
struct ForAlign {
    static void go() {
        AllocBFS<T, A>* b = new AllocBFS<T, A>();
        struct J { AllocBFS<T, A>* b; void operator()() { b->run(); } } j = {b};
        int sig = guarded(j);
        vxm_track(0);
        if (sig) {
            Stat& s = b->st("bfs_signal");
            s.signal = sig; ++s.fails; s.fp += sig;
            add_witness(s, "{\"signal\":" + u64s(std::uint64_t(sig)) + ",\"args\":[]}");
        }
        ForAlign<T, A * 2>::go();
    }
};
template<class T, std::size_t A> struct ForAlign<T, A, false> { static void go() {} };

}  // namespace vx

int main(int argc, char** argv) {
    if (int rc = vx::parse_args(argc, argv)) return rc;
    using namespace vx;
    ForAlign<Elem<1, 1>, 1>::go();
    ForAlign<Elem<2, 2>, 2>::go();
    ForAlign<Elem<4, 4>, 4>::go();
    ForAlign<Elem<8, 8>, 8>::go();
    ForAlign<Elem<16, 16>, 16>::go();
    ForAlign<Elem<64, 64>, 64>::go();
    ForAlign<Elem<3, 1>, 1>::go();   // element size that is no power of two
    if (opt().replay) {
        unsigned long long fails = 0;
        for (std::size_t i = 0; i < reg().stats.size(); ++i)
            if (reg().stats[i]->op == opt().only_op) fails += reg().stats[i]->fails;
        std::printf("{\"replay\":true,\"signal\":0,\"fails\":%llu}\n", fails);
        return 0;
    }
    return write_results("t_alloc", "all");
}
