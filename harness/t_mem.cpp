// t_mem.cpp - explorer C for memory operations.
//   default build        : C08, loads / stores / gathers / scatters / lane access move exactly the right lanes (values + canaries)
//   -DVX_FOOTPRINT=1     : C09, the same calls with the buffer flush against PROT_NONE / PROT_READ pages, wild inactive indices
//   -DVX_ASAN_FOOTPRINT=1: C09, the contiguous calls of the default build under AddressSanitizer with every byte outside [p, p + min(n,W)) poisoned:
//                          sees accesses that stay inside the page and leave the values alone (a full-width read-modify-write: seed C09-c).
//                          Plain vector loads/stores are instrumented; masked-move builtins are not, so a correct masked store stays silent.
#include "vx_core.hpp"
#include "vx_domains.hpp"
#include <sys/mman.h>
#include <unistd.h>
#include <fcntl.h>
#include <map>
#ifdef VX_ASAN_FOOTPRINT
#include <sanitizer/asan_interface.h>
static volatile unsigned long g_asan_errors;
extern "C" void __asan_on_error() { ++g_asan_errors; }
extern "C" const char* __asan_default_options() {
    return "halt_on_error=0:detect_leaks=0:handle_segv=0:handle_sigbus=0:handle_sigfpe=0:handle_sigill=0:handle_abort=0:print_summary=0:symbolize=0:detect_stack_use_after_return=0";
}
#endif

namespace vx {

static const std::size_t PAGE = 4096;
static const unsigned char CANARY = 0xC5;

struct Arena {
    unsigned char* base;  // three pages; [PAGE, 2*PAGE) is the data page
    Arena() {
        base = static_cast<unsigned char*>(mmap(0, 3 * PAGE, PROT_READ | PROT_WRITE, MAP_PRIVATE | MAP_ANONYMOUS, -1, 0));
        if (base == MAP_FAILED) { std::perror("mmap"); std::exit(2); }
    }
    void protect(int before, int after) {
        mprotect(base, PAGE, before);
        mprotect(base + 2 * PAGE, PAGE, after);
    }
    void open() { protect(PROT_READ | PROT_WRITE, PROT_READ | PROT_WRITE); }
    void fill() { open(); std::memset(base, CANARY, 3 * PAGE); }
    unsigned char* page() { return base + PAGE; }
#ifdef VX_ASAN_FOOTPRINT
    void poison_outside(const unsigned char* lo, const unsigned char* hi) {
        ASAN_POISON_MEMORY_REGION(base, 3 * PAGE);
        if (hi > lo) ASAN_UNPOISON_MEMORY_REGION(lo, hi - lo);  // bytes of lo's 8-byte granule before lo become accessible too (no way to say otherwise)
    }
    void unpoison() { ASAN_UNPOISON_MEMORY_REGION(base, 3 * PAGE); }
#endif
    // number of non-canary bytes outside [lo, hi) in the whole arena (all pages must be readable)
    std::size_t stray(const unsigned char* lo, const unsigned char* hi) {
        std::size_t n = 0;
        for (unsigned char* p = base; p < base + 3 * PAGE; ++p)
            if ((p < lo || p >= hi) && *p != CANARY) ++n;
        return n;
    }
};
inline Arena& arena() { static Arena a; return a; }

template<class V>
struct Mem {
    typedef typename V::scalar S;
    typedef typename uint_of<S>::type U;
    static const unsigned W = V::width;
    std::string subject;
    std::map<std::string, Stat*> stats;

    Stat& st(const char* op) {
        std::map<std::string, Stat*>::iterator it = stats.find(op);
        if (it != stats.end()) return *it->second;
#ifdef VX_FOOTPRINT
        Stat& s = new_stat(subject, op, "every n in 0..W+1 x buffer of exactly min(n,W) elements flush against PROT_NONE / PROT_READ pages on either side");
#elif defined(VX_ASAN_FOOTPRINT)
        Stat& s = new_stat(subject, op, "every n in 0..W+2 x every element-aligned offset in a 64-byte line x 2 payload patterns, every byte outside [p, p+min(n,W)) poisoned for AddressSanitizer");
#else
        Stat& s = new_stat(subject, op, "every n in 0..W+2 x every element-aligned offset in a 64-byte line x 2 payload patterns, canaries around");
#endif
        stats[op] = &s;
        return s;
    }
    void ok(const char* op, bool nontrivial) { Stat& s = st(op); ++s.evals; ++s.distinct; if (nontrivial) ++s.nontrivial; }
    void fail(const char* op, std::uint64_t key, const std::string& detail) {
        Stat& s = st(op);
        ++s.fails;
        s.fp += mix(key);
        if (s.witnesses.size() < 4) add_witness(s, "{\"case\":" + jstr(detail) + ",\"args\":[]}");
    }

    static S payload(unsigned lane, unsigned pattern) {
        U u = pattern == 0 ? U(0x0101010101010101ull * (lane + 1) + 0x10) : U(~(0x0807060504030201ull * (lane + 3)));
        if (u == 0) u = 1;
        S s;
        std::memcpy(&s, &u, sizeof s);
        return s;
    }
    static V payload_vec(unsigned pattern) {
        S l[W];
        for (unsigned i = 0; i < W; ++i) l[i] = payload(i, pattern);
        return from_lanes<V>(l);
    }
    static std::string desc(const char* what, unsigned n, long off, unsigned pat, const char* place) {
        char b[160];
        std::snprintf(b, sizeof b, "%s n=%u offset=%ld pattern=%u placement=%s", what, n, off, pat, place);
        return b;
    }
    static std::uint64_t key(unsigned opid, unsigned n, long off, unsigned pat, unsigned place) {
        return hcomb(hcomb(hcomb(hcomb(opid, n), std::uint64_t(off + 100000)), pat), place);
    }

    // ---- one guarded call ---------------------------------------------------------------------
    struct Call {
        int kind;  // 0 load_n 1 aligned_load_n 2 store_n 3 aligned_store_n 4 load_full 5 store_full 6 aligned_load_full 7 aligned_store_full
        S* p;
        unsigned n;
        V v;
        V out;
        void operator()() {
            switch (kind) {
                case 0: out = avel::load<V>(p, n); break;
                case 1: out = avel::aligned_load<V>(p, n); break;
                case 2: avel::store(p, v, n); break;
                case 3: avel::aligned_store(p, v, n); break;
                case 4: out = avel::load<V>(p); break;
                case 5: avel::store(p, v); break;
                case 6: out = avel::aligned_load<V>(p); break;
                case 7: avel::aligned_store(p, v); break;
            }
        }
    };
    static const char* kind_name(int k) {
        static const char* n[] = {"load_n", "aligned_load_n", "store_n", "aligned_store_n", "load_full", "store_full", "aligned_load_full", "aligned_store_full"};
        return n[k];
    }

    // compile-time element counts
    template<unsigned N, int DUMMY = 0>
    struct CT {
        static V load(const S* p, unsigned n) { return n == N ? avel::load<V, N>(p) : CT<N - 1>::load(p, n); }
        static V aligned_load(const S* p, unsigned n) { return n == N ? avel::aligned_load<V, N>(p) : CT<N - 1>::aligned_load(p, n); }
        static void store(S* p, V v, unsigned n) { if (n == N) avel::store<N>(p, v); else CT<N - 1>::store(p, v, n); }
        static void aligned_store(S* p, V v, unsigned n) { if (n == N) avel::aligned_store<N>(p, v); else CT<N - 1>::aligned_store(p, v, n); }
    };
    template<int DUMMY>
    struct CT<0, DUMMY> {
        static V load(const S* p, unsigned) { return avel::load<V, 0>(p); }
        static V aligned_load(const S* p, unsigned) { return avel::aligned_load<V, 0>(p); }
        static void store(S* p, V v, unsigned) { avel::store<0>(p, v); }
        static void aligned_store(S* p, V v, unsigned) { avel::aligned_store<0>(p, v); }
    };
    struct CtCall {
        int kind;  // 0 load 1 aligned_load 2 store 3 aligned_store
        S* p;
        unsigned n;
        V v;
        V out;
        void operator()() {
            switch (kind) {
                case 0: out = CT<W>::load(p, n); break;
                case 1: out = CT<W>::aligned_load(p, n); break;
                case 2: CT<W>::store(p, v, n); break;
                case 3: CT<W>::aligned_store(p, v, n); break;
            }
        }
    };

    // checks a load-like result against memory
    bool load_ok(const V& out, const S* p, unsigned n) {
        S l[W];
        to_lanes(out, l);
        const unsigned m = n < W ? n : W;
        for (unsigned i = 0; i < W; ++i) {
            std::uint64_t expect = i < m ? bits_of(p[i]) : 0;
            if (bits_of(l[i]) != expect) return false;
        }
        return true;
    }

    // place `count` payload elements at address p (inside the open arena)
    void put(S* p, unsigned count, unsigned pat) {
        for (unsigned i = 0; i < count; ++i) { S s = payload(i, pat); std::memcpy(p + i, &s, sizeof s); }
    }

#ifndef VX_FOOTPRINT
    //==========================================================================================
    // C08: values
    //==========================================================================================
    void run_values() {
        Arena& A = arena();
        const unsigned line = 64;
        for (unsigned pat = 0; pat < 2; ++pat)
            for (unsigned n = 0; n <= W + 2; ++n)
                for (unsigned off = 0; off < line; off += sizeof(S)) {
                    const bool aligned_ok = (off % alignof(V)) == 0;
                    S* p = reinterpret_cast<S*>(A.page() + 512 + off);
                    const unsigned m = n < W ? n : W;
                    for (int kind = 0; kind < 8; ++kind) {
                        const bool is_aligned = kind == 1 || kind == 3 || kind == 6 || kind == 7;
                        const bool full = kind >= 4;
                        if (is_aligned && !aligned_ok) continue;
                        if (full && n != W) continue;
                        const bool is_store = kind == 2 || kind == 3 || kind == 5 || kind == 7;
                        A.fill();
                        if (!is_store) put(p, W + 4, pat);
                        Call c;
                        c.kind = kind; c.p = p; c.n = n; c.v = payload_vec(pat);
                        const char* op = kind_name(kind);
#ifdef VX_ASAN_FOOTPRINT
                        A.poison_outside(reinterpret_cast<unsigned char*>(p), reinterpret_cast<unsigned char*>(p + m));
                        const unsigned long e0 = g_asan_errors;
#endif
                        int sig = guarded(c);
#ifdef VX_ASAN_FOOTPRINT
                        const unsigned long e1 = g_asan_errors;
                        A.unpoison();
                        if (e1 != e0) fail(op, key(kind, n, off, pat, 7), desc("bytes outside [p, p+min(n,W)) were read or written (AddressSanitizer)", n, off, pat, "poisoned surroundings"));
#endif
                        ok(op, n != 0 && n != W);
                        if (sig) { fail(op, key(kind, n, off, pat, 0), desc("signal", n, off, pat, "open")); continue; }
                        if (!is_store) {
                            if (!load_ok(c.out, p, n)) fail(op, key(kind, n, off, pat, 0), desc("wrong lanes", n, off, pat, "open"));
                        } else {
                            bool good = true;
                            for (unsigned i = 0; i < m; ++i) { S s = payload(i, pat); good = good && std::memcmp(p + i, &s, sizeof(S)) == 0; }
                            std::size_t stray = A.stray(reinterpret_cast<unsigned char*>(p), reinterpret_cast<unsigned char*>(p + m));
                            if (!good || stray) fail(op, key(kind, n, off, pat, 0), desc(good ? "bytes outside the stored elements changed" : "stored lanes wrong", n, off, pat, "open"));
                        }
                    }
                    // compile-time counts behave as the run-time forms with n = N
                    if (n <= W)
                        for (int kind = 0; kind < 4; ++kind) {
                            const bool is_aligned = kind == 1 || kind == 3;
                            if (is_aligned && !aligned_ok) continue;
                            const bool is_store = kind >= 2;
                            A.fill();
                            if (!is_store) put(p, W + 4, pat);
                            CtCall c;
                            c.kind = kind; c.p = p; c.n = n; c.v = payload_vec(pat);
                            static const char* names[] = {"load_ct", "aligned_load_ct", "store_ct", "aligned_store_ct"};
#ifdef VX_ASAN_FOOTPRINT
                            A.poison_outside(reinterpret_cast<unsigned char*>(p), reinterpret_cast<unsigned char*>(p + m));
                            const unsigned long e0 = g_asan_errors;
#endif
                            int sig = guarded(c);
#ifdef VX_ASAN_FOOTPRINT
                            const unsigned long e1 = g_asan_errors;
                            A.unpoison();
                            if (e1 != e0) fail(names[kind], key(10 + kind, n, off, pat, 7), desc("bytes outside [p, p+N) were read or written (AddressSanitizer)", n, off, pat, "poisoned surroundings"));
#endif
                            ok(names[kind], n != 0 && n != W);
                            if (sig) { fail(names[kind], key(10 + kind, n, off, pat, 0), desc("signal", n, off, pat, "open")); continue; }
                            if (!is_store) {
                                if (!load_ok(c.out, p, n)) fail(names[kind], key(10 + kind, n, off, pat, 0), desc("wrong lanes", n, off, pat, "open"));
                            } else {
                                bool good = true;
                                for (unsigned i = 0; i < m; ++i) { S s = payload(i, pat); good = good && std::memcmp(p + i, &s, sizeof(S)) == 0; }
                                std::size_t stray = A.stray(reinterpret_cast<unsigned char*>(p), reinterpret_cast<unsigned char*>(p + m));
                                if (!good || stray) fail(names[kind], key(10 + kind, n, off, pat, 0), desc(good ? "bytes outside the stored elements changed" : "stored lanes wrong", n, off, pat, "open"));
                            }
                        }
                }
#ifndef VX_ASAN_FOOTPRINT
        lane_access();
#endif
    }

    // to_array / array constructor / extract<I> / insert<I>
    template<unsigned I, int DUMMY = 0>
    struct Lane {
        static void go(Mem* self, unsigned pat) {
            V v = payload_vec(pat);
            self->ok("extract", true);
            if (bits_of(avel::extract<I>(v)) != bits_of(payload(I, pat))) self->fail("extract", key(20, I, 0, pat, 0), desc("extract<I>", I, 0, pat, "-"));
            S x = payload(I, 1 - pat);
            V w = avel::insert<I>(v, x);
            S l[W];
            to_lanes(w, l);
            bool good = true;
            for (unsigned i = 0; i < W; ++i) good = good && bits_of(l[i]) == bits_of(i == I ? x : payload(i, pat));
            self->ok("insert", true);
            if (!good) self->fail("insert", key(21, I, 0, pat, 0), desc("insert<I>", I, 0, pat, "-"));
            Lane<I + 1>::go(self, pat);
        }
    };
    template<int DUMMY> struct Lane<W, DUMMY> { static void go(Mem*, unsigned) {} };

    void lane_access() {
        for (unsigned pat = 0; pat < 2; ++pat) {
            V v = payload_vec(pat);
            std::array<S, W> arr = avel::to_array(v);
            bool good = true;
            for (unsigned i = 0; i < W; ++i) good = good && bits_of(arr[i]) == bits_of(payload(i, pat));
            ok("to_array", true);
            if (!good) fail("to_array", key(22, 0, 0, pat, 0), desc("to_array", 0, 0, pat, "-"));
            std::array<S, W> src;
            for (unsigned i = 0; i < W; ++i) src[i] = payload(i, pat);
            V c(src);
            S l[W];
            to_lanes(c, l);
            good = true;
            for (unsigned i = 0; i < W; ++i) good = good && bits_of(l[i]) == bits_of(payload(i, pat));
            ok("array_constructor", true);
            if (!good) fail("array_constructor", key(23, 0, 0, pat, 0), desc("array ctor", 0, 0, pat, "-"));
            Lane<0>::go(this, pat);
            // the array constructor and to_array with the std::array at every element-aligned offset of a 64-byte line: alignof(std::array<S,W>) is
            // alignof(S), an aligned vector load from it faults (seed C08-d); canaries around the array written by to_array
            Arena& A = arena();
            for (unsigned off = 0; off < 64; off += sizeof(S)) {
                typedef std::array<S, W> Arr;
                A.fill();
                Arr* ap = reinterpret_cast<Arr*>(A.page() + 512 + off);
                for (unsigned i = 0; i < W; ++i) { S x = payload(i, pat); std::memcpy(reinterpret_cast<unsigned char*>(ap) + i * sizeof(S), &x, sizeof(S)); }
                struct FromArr { const Arr* a; V out; void operator()() { out = V(*a); } } fa;
                fa.a = ap;
                int sig = guarded(fa);
                ok("array_constructor", off % alignof(V) != 0);
                if (sig) fail("array_constructor", key(24, 0, off, pat, 0), desc("signal constructing from a std::array at", 0, off, pat, "element-aligned offset"));
                else {
                    S l2[W];
                    to_lanes(fa.out, l2);
                    bool g2 = true;
                    for (unsigned i = 0; i < W; ++i) g2 = g2 && bits_of(l2[i]) == bits_of(payload(i, pat));
                    if (!g2) fail("array_constructor", key(24, 1, off, pat, 0), desc("array ctor wrong lanes", 0, off, pat, "element-aligned offset"));
                }
                A.fill();
                struct ToArr { Arr* a; V v; void operator()() { *a = avel::to_array(v); } } ta;
                ta.a = ap; ta.v = payload_vec(pat);
                sig = guarded(ta);
                ok("to_array", off % alignof(V) != 0);
                if (sig) fail("to_array", key(25, 0, off, pat, 0), desc("signal in to_array into a std::array at", 0, off, pat, "element-aligned offset"));
                else {
                    bool g3 = true;
                    for (unsigned i = 0; i < W; ++i) { S x = payload(i, pat); g3 = g3 && std::memcmp(reinterpret_cast<unsigned char*>(ap) + i * sizeof(S), &x, sizeof(S)) == 0; }
                    std::size_t stray = A.stray(reinterpret_cast<unsigned char*>(ap), reinterpret_cast<unsigned char*>(ap) + sizeof(Arr));
                    if (!g3 || stray) fail("to_array", key(25, 1, off, pat, 0), desc(g3 ? "bytes outside the array changed" : "to_array wrong elements", 0, off, pat, "element-aligned offset"));
                }
            }
        }
    }
#else
    //==========================================================================================
    // C09: footprint
    //==========================================================================================
    void run_footprint() {
        Arena& A = arena();
        static const int prots[2] = {PROT_NONE, PROT_READ};
        static const char* pnames[2] = {"none", "readonly"};
        for (unsigned pat = 0; pat < 2; ++pat)
            for (unsigned n = 0; n <= W + 1; ++n) {
                const unsigned m = n < W ? n : W;
                for (int side = 0; side < 2; ++side)  // 0: buffer ends at the page end; 1: buffer starts at the page start
                    for (int pr = 0; pr < 2; ++pr) {
                        S* p = side == 0 ? reinterpret_cast<S*>(A.page() + PAGE - m * sizeof(S)) : reinterpret_cast<S*>(A.page());
                        const bool aligned_ok = (reinterpret_cast<std::uintptr_t>(p) % alignof(V)) == 0;
                        for (int kind = 0; kind < 8; ++kind) {
                            const bool is_aligned = kind == 1 || kind == 3 || kind == 6 || kind == 7;
                            const bool full = kind >= 4;
                            if (is_aligned && !aligned_ok) continue;
                            if (full && n != W) continue;
                            const bool is_store = kind == 2 || kind == 3 || kind == 5 || kind == 7;
                            A.fill();
                            if (!is_store) put(p, m, pat);
                            // the neighbouring page on the buffer's flush side becomes inaccessible (or read-only); the far side always PROT_NONE
                            if (side == 0) A.protect(PROT_NONE, prots[pr]); else A.protect(prots[pr], PROT_NONE);
                            Call c;
                            c.kind = kind; c.p = p; c.n = n; c.v = payload_vec(pat);
                            int sig = guarded(c);
                            A.open();
                            char place[40];
                            std::snprintf(place, sizeof place, "%s/%s", side == 0 ? "ends-at-boundary" : "starts-at-boundary", pnames[pr]);
                            const char* op = kind_name(kind);
                            ok(op, n != W);
                            const std::uint64_t k = key(kind, n, side, pat, 1 + pr);
                            if (sig) { fail(op, k, desc("signal (fault)", n, side, pat, place)); continue; }
                            if (!is_store) {
                                if (!load_ok(c.out, p, n)) fail(op, k, desc("wrong lanes", n, side, pat, place));
                            } else {
                                std::size_t stray = A.stray(reinterpret_cast<unsigned char*>(p), reinterpret_cast<unsigned char*>(p + m));
                                if (stray) fail(op, k, desc("bytes outside the stored elements changed", n, side, pat, place));
                            }
                        }
                    }
            }
        // n == 0 performs no access at all: null and a pointer inside inaccessible memory
        for (int which = 0; which < 3; ++which) {
            S* p = which == 0 ? static_cast<S*>(0) : reinterpret_cast<S*>(A.base + (which == 1 ? 64 : 2 * PAGE + 64));
            for (int kind = 0; kind < 4; ++kind) {
                A.fill();
                A.protect(PROT_NONE, PROT_NONE);
                Call c;
                c.kind = kind; c.p = p; c.n = 0; c.v = payload_vec(0);
                int sig = guarded(c);
                A.open();
                const char* op = kind_name(kind);
                ok(op, true);
                if (sig) fail(op, key(kind, 0, which, 0, 9), desc("signal with n == 0", 0, which, 0, which == 0 ? "null" : "inside PROT_NONE"));
                else if (kind < 2 && !load_ok(c.out, reinterpret_cast<S*>(A.page()), 0)) fail(op, key(kind, 0, which, 0, 9), desc("non-zero lanes with n == 0", 0, which, 0, "-"));
            }
        }
    }
#endif

    //==========================================================================================
    // gather / scatter (32- and 64-bit element types)
    //==========================================================================================
    typedef typename sint_of<S>::type I;
    typedef avel::Vector<I, W> IV;

    struct GCall {
        int kind;  // 0 gather_n 1 scatter_n 2 gather_full 3 scatter_full
        S* p;
        IV idx;
        unsigned n;
        V v, out;
        void operator()() {
            switch (kind) {
                case 0: out = avel::gather<V>(p, idx, n); break;
                case 1: avel::scatter(p, v, idx, n); break;
                case 2: out = avel::gather<V>(p, idx); break;
                case 3: avel::scatter(p, v, idx); break;
            }
        }
    };

    void run_gather_scatter(std::true_type) {
        Arena& A = arena();
        static const char* names[] = {"gather_n", "scatter_n", "gather_full", "scatter_full"};
        // index shapes: identity, reversed, stride 3, stride -1 from the top, negative (pointer into the middle), all-equal (gather only)
        for (int shape = 0; shape < 6; ++shape)
            for (unsigned n = 0; n <= W + 1; ++n)
                for (unsigned pat = 0; pat < 2; ++pat) {
                    const unsigned m = n < W ? n : W;
#ifdef VX_FOOTPRINT
                    // table: the last 4*W elements of the data page, followed by a PROT_NONE page; preceded by PROT_NONE two pages earlier
                    S* table = reinterpret_cast<S*>(A.page() + PAGE) - 4 * W;
#else
                    S* table = reinterpret_cast<S*>(A.page() + 1024);
#endif
                    S* p = table + 2 * W;  // pointer into the middle, so negative indices stay inside the table
                    I ix[W];
                    for (unsigned i = 0; i < W; ++i) {
                        long v;
                        switch (shape) {
                            case 0: v = long(i); break;
                            case 1: v = long(W - 1 - i); break;
                            case 2: v = (long(i) * 3) % long(2 * W); break;
                            case 3: v = long(2 * W - 1) - long(i); break;
                            case 4: v = -long(i) - 1; break;
                            default: v = 1; break;
                        }
                        ix[i] = I(v);
                    }
                    // inactive lanes
                    for (unsigned i = m; i < W; ++i) {
#ifdef VX_FOOTPRINT
                        static const long long wild[] = {0x7fffffffll, -0x80000000ll, 3 * (long long)PAGE, -3 * (long long)PAGE, 0x40000000ll, -1ll};
                        long long w = wild[(i + shape) % 6];
                        if (sizeof(I) == 8 && (i & 1)) w *= 0x10001ll;
                        ix[i] = I(w);
#else
                        ix[i] = I((i * 5 + 1) % (2 * W));
#endif
                    }
                    IV idx = from_lanes<IV>(ix);
                    for (int kind = 0; kind < 4; ++kind) {
                        const bool full = kind >= 2;
                        const bool is_scatter = kind == 1 || kind == 3;
                        if (full && n != W) continue;
                        if (is_scatter && shape == 5) continue;  // duplicate indices: the winning lane is not specified
                        A.fill();
                        for (unsigned j = 0; j < 4 * W; ++j) { S s = payload(j, pat); std::memcpy(table + j, &s, sizeof s); }
                        unsigned char snapshot[3 * PAGE];
                        std::memcpy(snapshot, A.base, 3 * PAGE);
#ifdef VX_FOOTPRINT
                        A.protect(PROT_NONE, PROT_NONE);
#endif
                        GCall c;
                        c.kind = kind; c.p = p; c.idx = idx; c.n = n; c.v = payload_vec(1 - pat);
                        int sig = guarded(c);
                        A.open();
                        ok(names[kind], n != W);
                        const std::uint64_t k = key(30 + kind, n, shape, pat, 0);
                        if (sig) { fail(names[kind], k, desc("signal (fault)", n, shape, pat, "gather/scatter shape")); continue; }
                        if (!is_scatter) {
                            S l[W];
                            to_lanes(c.out, l);
                            bool good = true;
                            for (unsigned i = 0; i < W; ++i) good = good && bits_of(l[i]) == (i < m ? bits_of(p[ix[i]]) : 0);
                            if (!good) fail(names[kind], k, desc("wrong lanes", n, shape, pat, "gather shape"));
                            if (std::memcmp(snapshot, A.base, 3 * PAGE) != 0) fail(names[kind], k ^ 1, desc("gather changed memory", n, shape, pat, "gather shape"));
                        } else {
                            // expected memory: snapshot with p[ix[i]] = v[i] for i < m
                            for (unsigned i = 0; i < m; ++i) {
                                S s = payload(i, 1 - pat);
                                std::memcpy(snapshot + (reinterpret_cast<unsigned char*>(p + ix[i]) - A.base), &s, sizeof s);
                            }
                            if (std::memcmp(snapshot, A.base, 3 * PAGE) != 0) fail(names[kind], k, desc("memory differs from 'v[i] written to p[idx[i]] for i < n and nothing else'", n, shape, pat, "scatter shape"));
                        }
                    }
                }
    }
    void run_gather_scatter(std::false_type) {}

    void run() {
        subject = vname<V>();
        if (!opt().only_subject.empty() && opt().only_subject != subject) return;
#ifdef VX_FOOTPRINT
        run_footprint();
#else
        run_values();
#endif
#ifndef VX_ASAN_FOOTPRINT
        run_gather_scatter(std::integral_constant<bool, (sizeof(S) >= 4)>());  // hardware gathers/scatters are builtins AddressSanitizer does not instrument
#endif
        for (std::map<std::string, Stat*>::iterator it = stats.begin(); it != stats.end(); ++it)
            if (it->second->samples.empty()) add_sample(*it->second, "{\"subject\":" + jstr(subject) + ",\"op\":" + jstr(it->first) + ",\"calls\":" + u64s(it->second->evals) + "}");
        arena().open();
    }
};

template<class V>
struct PerType {
    static void run() {
        static Mem<V> m;
        FpGuard fpg(vname<V>() + ":memory");
        m.run();
    }
};

}  // namespace vx

int main(int argc, char** argv) {
    if (int rc = vx::parse_args(argc, argv)) return rc;
#ifdef VX_ASAN_FOOTPRINT
    { int fd = open("/dev/null", O_WRONLY); if (fd >= 0) dup2(fd, 2); }  // AddressSanitizer's reports; the verdict is the error count per call
#endif
#if VX_PART < 100
    vx::for_each_int_type<vx::PerType>();
#else
    vx::for_each_float_type<vx::PerType>();
#endif
    if (vx::opt().replay) {
        unsigned long long fails = 0;
        for (std::size_t i = 0; i < vx::reg().stats.size(); ++i)
            if (vx::reg().stats[i]->op == vx::opt().only_op) fails += vx::reg().stats[i]->fails;
        std::printf("{\"replay\":true,\"signal\":0,\"fails\":%llu}\n", fails);
        return 0;
    }
#ifdef VX_FOOTPRINT
    return vx::write_results("t_memfp", vx::part_name());
#elif defined(VX_ASAN_FOOTPRINT)
    return vx::write_results("t_memasan", vx::part_name());
#else
    return vx::write_results("t_mem", vx::part_name());
#endif
}
