// t_fmanip.cpp - C12: frexp / ldexp / scalbn / ilogb / logb / frac / fmax / fmin / fdim match the <cmath> definitions.

#include "ops_fmanip.hpp"

namespace vx {
using namespace ofm;

inline std::vector<std::uint64_t> alphabet_EXP(unsigned lane_bits) {
    std::vector<long long> v;
    for (int e = -1200; e <= 1200; ++e) v.push_back(e);
    for (int k = 0; k < 31; ++k) {
        long long p = 1ll << k;
        long long e[] = {p, p - 1, p + 1, -p, -p - 1, -p + 1};
        for (int i = 0; i < 6; ++i) v.push_back(e[i]);
    }
    v.push_back(INT_MIN); v.push_back(INT_MAX); v.push_back(INT_MIN + 1); v.push_back(INT_MAX - 1);
    std::vector<std::uint64_t> out;
    for (std::size_t i = 0; i < v.size(); ++i) if (v[i] >= INT_MIN && v[i] <= INT_MAX) out.push_back(std::uint64_t(v[i]) & low_mask(lane_bits));
    sort_unique(out);
    return out;
}

template<class V>
struct PerType {
    typedef typename V::scalar S;
    static void run() { run_mode(0); }
    static void run_mode(int m) {
        const bool f32 = sizeof(S) == 4;
        std::vector<S> K = alphabet_KF<S>();
        std::vector<S> L = as_scalars<S>(f32 ? alphabet_F32L() : alphabet_F64L());
        std::vector<S> U;
        if (f32) { std::vector<std::uint64_t> u = alphabet_F32L(), h = alphabet_F32H(); u.insert(u.end(), h.begin(), h.end()); sort_unique(u); U = as_scalars<S>(u); }
        else U = as_scalars<S>(alphabet_F64S(opt().thorough));
        DomainOf<S, DomList1<S> > lat = erase<S>(DomList1<S>(U, f32 ? "F32L u F32H" : "F64S"));
        // directed rounding modes: none of these functions rounds (fdim, ldexp and scalbn round once, as <cmath> does under the same mode);
        // an implementation built on mode-sensitive arithmetic or on instructions with a static rounding override differs (seed C12-d)
        if (m == 0) unary(lat, K, std::integral_constant<bool, sizeof(S) == 4>()); else unary_ops(lat, K);
        DomainOf<S, DomProd2<S> > d2 = erase<S>(DomProd2<S>(L, L, f32 ? "F32L x F32L" : "F64L x F64L"));
        if (m == 0) {
            explore<V, fmax>(d2, &K);
            explore<V, fmin>(d2, &K);
        }
        explore<V, fdim>(d2, &K);
        // ldexp/scalbn are demanded 'correctly rounded with overflow to infinity', which names the default mode (under a directed mode <cmath> overflows
        // to the largest finite number); fmax/fmin select an operand and carry a recorded finding: all four are explored under FE_TONEAREST only
        if (m != 0) return;
        // a different exponent in every lane: the exponent index varies fastest
        std::vector<S> E = as_scalars<S>(alphabet_EXP(8 * sizeof(S)));
        DomainOf<S, DomProd2<S> > de = erase<S>(DomProd2<S>(L, E, f32 ? "F32L x EXP" : "F64L x EXP").swapped());
        explore<V, ldexp>(de, 0);
        explore<V, scalbn>(de, 0);
        // lane placement for ldexp/scalbn: value K x exponents {-150..150 step, extremes} handled by the packed enumeration above
    }
    static void unary_ops(const DomainS<S>& d, const std::vector<S>& K) {
        explore<V, frexp_significand>(d, &K);
        explore<V, frexp_exponent>(d, &K);
        explore<V, ilogb>(d, &K);
        explore<V, logb>(d, &K);
        explore<V, frac>(d, &K);
    }
    static void unary(const DomainS<S>& lat, const std::vector<S>& K, std::true_type) {
        if (exh32()) unary_ops(erase<S>(DomFull1<S>()), K);
        else unary_ops(lat, K);
    }
    static void unary(const DomainS<S>& lat, const std::vector<S>& K, std::false_type) { unary_ops(lat, K); }
};

}  // namespace vx

namespace vx {
template<class V> struct Mode1 { static void run() { PerType<V>::run_mode(1); } };
template<class V> struct Mode2 { static void run() { PerType<V>::run_mode(2); } };
template<class V> struct Mode3 { static void run() { PerType<V>::run_mode(3); } };
}  // namespace vx

int main(int argc, char** argv) {
    if (int rc = vx::parse_args(argc, argv)) return rc;
    using namespace vx;
    for_each_float_type<PerType>();
    for_each_float_scalar<PerType>();
    for (int m = 1; m < 4; ++m) {
        std::fesetround(round_modes()[m].mode);
        name_suffix() = round_modes()[m].suffix;
        if (m == 1) { for_each_float_type<Mode1>(); for_each_float_scalar<Mode1>(); }
        if (m == 2) { for_each_float_type<Mode2>(); for_each_float_scalar<Mode2>(); }
        if (m == 3) { for_each_float_type<Mode3>(); for_each_float_scalar<Mode3>(); }
    }
    std::fesetround(FE_TONEAREST);
    name_suffix() = "";
    return vx::write_results("t_fmanip", vx::part_name());
}
