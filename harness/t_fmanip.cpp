// t_fmanip.cpp - C12: frexp / ldexp / scalbn / ilogb / logb / frac / fmax / fmin / fdim match the <cmath> definitions.
#include "vx_float.hpp"
#include <climits>

namespace vx {

// ---- frexp: two outputs -------------------------------------------------------------------
template<class V> inline V frexp_sig(V a) { typename int_peer<V>::type e; return avel::frexp(a, &e); }
template<class V> inline typename int_peer<V>::type frexp_exp(V a) { typename int_peer<V>::type e; (void)avel::frexp(a, &e); return e; }
template<class S> inline S frexp_sig(Sc<S> a) { typename sint_of<S>::type e = 0; return avel::frexp(a.v, &e); }
template<class S> inline typename sint_of<S>::type frexp_exp(Sc<S> a) { typename sint_of<S>::type e = 0; (void)avel::frexp(a.v, &e); return e; }

template<class S> inline std::uint64_t int_result_bits(long long v) { return std::uint64_t(v) & low_mask(8 * sizeof(S)); }
inline int clamp_int(long long e) { return e > INT_MAX ? INT_MAX : (e < INT_MIN ? INT_MIN : int(e)); }

#define VX_FM_OP(NAME, ARITY, EXPR, MODEL, DOMAIN, SAME, NT)                                     \
    struct NAME : OpBase {                                                                      \
        static const int arity = ARITY;                                                         \
        static const char* name() { return #NAME; }                                             \
        template<class V> static auto apply(V a, V b, V) VX_AUTO(EXPR)                          \
        template<class S> static std::uint64_t model(S a, S b, S) { (void)b; return MODEL; }    \
        template<class S> static bool in_domain(S a, S b, S) { (void)a; (void)b; return DOMAIN; } \
        template<class S> static bool same(std::uint64_t e, std::uint64_t g) { return SAME<S>(e, g); } \
        template<class S> static bool nontrivial(S a, S b, S) { (void)a; (void)b; return NT; }  \
    };
template<class S> inline bool plain_eq(std::uint64_t e, std::uint64_t g) { return e == g; }
template<class S> inline bool special(S a) { return a != a || std::isinf(a) || a == S(0) || std::fabs(a) < std::numeric_limits<S>::min(); }

template<class S> inline std::uint64_t m_frexp_sig(S a) { int e = 0; return bits_of(S(std::frexp(a, &e))); }
template<class S> inline std::uint64_t m_frexp_exp(S a) { int e = 0; (void)std::frexp(a, &e); return int_result_bits<S>(e); }

// the statement: the larger/smaller operand; the other operand when exactly one is NaN (quiet or signalling); NaN when both are
template<class S> inline std::uint64_t m_fmax(S a, S b) { if (a != a) return bits_of(b); if (b != b) return bits_of(a); return bits_of(a < b ? b : a); }
template<class S> inline std::uint64_t m_fmin(S a, S b) { if (a != a) return bits_of(b); if (b != b) return bits_of(a); return bits_of(b < a ? b : a); }

VX_FM_OP(frexp_significand, 1, frexp_sig(a), m_frexp_sig(a), true, same_bits_nan, special(a))
VX_FM_OP(frexp_exponent, 1, frexp_exp(a), m_frexp_exp(a), (a == a && !std::isinf(a)), plain_eq, special(a))
VX_FM_OP(ldexp, 2, avel::ldexp(un(a), bits_as_int_vector(b)), bits_of(S(std::ldexp(a, clamp_int(int_of_bits(b))))), true, same_bits_nan, (special(a) || special(from_bits<S>(model(a, b, b)))))
VX_FM_OP(scalbn, 2, avel::scalbn(un(a), bits_as_int_vector(b)), bits_of(S(std::scalbn(a, clamp_int(int_of_bits(b))))), true, same_bits_nan, (special(a) || special(from_bits<S>(model(a, b, b)))))
VX_FM_OP(ilogb, 1, avel::ilogb(un(a)), int_result_bits<S>(std::ilogb(a)), true, plain_eq, special(a))
VX_FM_OP(logb, 1, avel::logb(un(a)), bits_of(S(std::logb(a))), true, same_bits_nan, special(a))
VX_FM_OP(frac, 1, avel::frac(un(a)), bits_of(S(a - std::trunc(a))), true, same_value_nan, (special(a) || std::trunc(a) == a))
VX_FM_OP(fmax, 2, avel::fmax(un(a), un(b)), m_fmax(a, b), true, same_value_nan, (a != a || b != b || (a == S(0) && b == S(0))))
VX_FM_OP(fmin, 2, avel::fmin(un(a), un(b)), m_fmin(a, b), true, same_value_nan, (a != a || b != b || (a == S(0) && b == S(0))))
// fdim is stated as max(x - y, 0): where x - y is NaN (a NaN operand, or infinities of equal sign) the statement gives no value, so those tuples are not demanded
VX_FM_OP(fdim, 2, avel::fdim(un(a), un(b)), bits_of(S(a > b ? a - b : S(0))), (a == a && b == b && !(std::isinf(a) && std::isinf(b) && std::signbit(a) == std::signbit(b))), same_value_nan, (!(a > b) || std::isinf(a) || std::isinf(b)))

inline std::vector<std::uint64_t> alphabet_EXP(unsigned lane_bits) {
    std::vector<long long> v;
    for (int e = -1200; e <= 1200; ++e) v.push_back(e);
    for (int k = 0; k < 31; ++k) {
        long long p = 1ll << k;
        long long e[] = {p, p - 1, p + 1, -p, -p - 1, -p + 1};
        for (int i = 0; i < 6; ++i) v.push_back(e[i]);
    }
    v.push_back(INT_MIN); v.push_back(INT_MAX); v.push_back(INT_MIN + 1); v.push_back(INT_MAX - 1);
    std::vector<std::uint64_t> out;
    for (std::size_t i = 0; i < v.size(); ++i) if (v[i] >= INT_MIN && v[i] <= INT_MAX) out.push_back(std::uint64_t(v[i]) & low_mask(lane_bits));
    sort_unique(out);
    return out;
}

template<class V>
struct PerType {
    typedef typename V::scalar S;
    static void run() {
        const bool f32 = sizeof(S) == 4;
        std::vector<S> K = alphabet_KF<S>();
        std::vector<S> L = as_scalars<S>(f32 ? alphabet_F32L() : alphabet_F64L());
        std::vector<S> U;
        if (f32) { std::vector<std::uint64_t> u = alphabet_F32L(), h = alphabet_F32H(); u.insert(u.end(), h.begin(), h.end()); sort_unique(u); U = as_scalars<S>(u); }
        else U = as_scalars<S>(alphabet_F64S(opt().thorough));
        DomainOf<S, DomList1<S> > lat = erase<S>(DomList1<S>(U, f32 ? "F32L u F32H" : "F64S"));
        unary(lat, K, std::integral_constant<bool, sizeof(S) == 4>());
        DomainOf<S, DomProd2<S> > d2 = erase<S>(DomProd2<S>(L, L, f32 ? "F32L x F32L" : "F64L x F64L"));
        explore<V, fmax>(d2, &K);
        explore<V, fmin>(d2, &K);
        explore<V, fdim>(d2, &K);
        // a different exponent in every lane: the exponent index varies fastest
        std::vector<S> E = as_scalars<S>(alphabet_EXP(8 * sizeof(S)));
        DomainOf<S, DomProd2<S> > de = erase<S>(DomProd2<S>(L, E, f32 ? "F32L x EXP" : "F64L x EXP").swapped());
        explore<V, ldexp>(de, 0);
        explore<V, scalbn>(de, 0);
        // lane placement for ldexp/scalbn: value K x exponents {-150..150 step, extremes} handled by the packed enumeration above
    }
    static void unary_ops(const DomainS<S>& d, const std::vector<S>& K) {
        explore<V, frexp_significand>(d, &K);
        explore<V, frexp_exponent>(d, &K);
        explore<V, ilogb>(d, &K);
        explore<V, logb>(d, &K);
        explore<V, frac>(d, &K);
    }
    static void unary(const DomainS<S>& lat, const std::vector<S>& K, std::true_type) {
        if (opt().thorough) unary_ops(erase<S>(DomFull1<S>()), K);
        else unary_ops(lat, K);
    }
    static void unary(const DomainS<S>& lat, const std::vector<S>& K, std::false_type) { unary_ops(lat, K); }
};

}  // namespace vx

int main(int argc, char** argv) {
    if (int rc = vx::parse_args(argc, argv)) return rc;
    vx::for_each_float_type<vx::PerType>();
    vx::for_each_float_scalar<vx::PerType>();
    return vx::write_results("t_fmanip", vx::part_name());
}
