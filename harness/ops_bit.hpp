// ops_bit.hpp - operation definitions shared by t_bit.cpp and t_scalar.cpp (C16)
#ifndef VX_OPS_BIT_HPP
#define VX_OPS_BIT_HPP
#include "vx_explore.hpp"

namespace vx {
namespace obit {



// reference models: plain bit loops (slow_*), and the compiler builtins that the exhaustive passes use (a 2^32 pass spent most of its time in the
// loops). self_check() compares the two on every 16-bit value at every shift position and aborts the harness if they ever differ.
inline unsigned slow_popcount(std::uint64_t x) { unsigned n = 0; while (x) { n += unsigned(x & 1); x >>= 1; } return n; }
inline unsigned slow_clz(std::uint64_t x, unsigned bits) { unsigned n = 0; for (unsigned i = bits; i-- > 0;) { if ((x >> i) & 1) break; ++n; } return n; }
inline unsigned slow_ctz(std::uint64_t x, unsigned bits) { unsigned n = 0; for (unsigned i = 0; i < bits; ++i) { if ((x >> i) & 1) break; ++n; } return n; }
__attribute__((always_inline)) inline unsigned m_popcount(std::uint64_t x) { return unsigned(__builtin_popcountll(x)); }
__attribute__((always_inline)) inline unsigned m_clz(std::uint64_t x, unsigned bits) { return x == 0 ? bits : unsigned(__builtin_clzll(x)) - (64 - bits); }
__attribute__((always_inline)) inline unsigned m_ctz(std::uint64_t x, unsigned bits) { return x == 0 ? bits : unsigned(__builtin_ctzll(x)); }
inline std::uint64_t m_bit_floor(std::uint64_t x, unsigned bits) { return x == 0 ? 0 : 1ull << (bits - m_clz(x, bits) - 1); }
inline std::uint64_t m_bit_ceil(std::uint64_t x, unsigned bits) {
    if (x <= 1) return 1;
    unsigned w = bits - m_clz(x - 1, bits);  // bit_width(x - 1)
    if (w >= bits) return 0;                 // not representable
    return 1ull << w;
}
inline std::uint64_t m_byteswap(std::uint64_t x, unsigned bits) {
    std::uint64_t r = 0;
    for (unsigned i = 0; i < bits / 8; ++i) r |= ((x >> (8 * i)) & 0xff) << (bits - 8 - 8 * i);
    return r;
}
inline unsigned slow_countl_sign(std::uint64_t x, unsigned bits) {
    // number of bits after the sign bit that equal it
    unsigned sign = unsigned((x >> (bits - 1)) & 1), n = 0;
    for (unsigned i = bits - 1; i-- > 0;) { if (((x >> i) & 1) != sign) break; ++n; }
    return n;
}
__attribute__((always_inline)) inline unsigned m_countl_sign(std::uint64_t x, unsigned bits) {
    const std::uint64_t M = low_mask(bits);
    const std::uint64_t y = ((x >> (bits - 1)) & 1) ? (~x & M) : x;  // leading zeros of the value with its sign bits cleared, minus the sign bit itself
    return m_clz(y, bits) - 1;
}

inline void self_check() {
    static bool done = false;
    if (done) return;
    done = true;
    const unsigned widths[4] = {8, 16, 32, 64};
    for (unsigned wi = 0; wi < 4; ++wi) {
        const unsigned B = widths[wi];
        for (unsigned sh = 0; sh < B; ++sh)
            for (std::uint64_t v = 0; v < 65536; ++v)
                for (int inv = 0; inv < 2; ++inv) {
                    const std::uint64_t x = (inv ? ~(v << sh) : (v << sh)) & low_mask(B);
                    if (slow_countl_sign(x, B) != m_countl_sign(x, B) || slow_popcount(x) != m_popcount(x) || slow_clz(x, B) != m_clz(x, B) || slow_ctz(x, B) != m_ctz(x, B)) {
                        std::fprintf(stderr, "harness self-check failed: builtin bit model differs from the loop model for %llx (%u bits)\n", (unsigned long long)x, B);
                        std::abort();
                    }
                }
    }
}

template<class S> inline bool bit_nt(S a, std::uint64_t result) {
    std::uint64_t x = bits_of(a), M = low_mask(nbits<S>());
    return x == 0 || x == M || (x >> (nbits<S>() - 1)) || result != 0;
}

#define VX_BIT_OP(NAME, EXPR, MODEL)                                                            \
    struct NAME : OpBase {                                                                       \
        static const int arity = 1;                                                              \
        static const char* name() { return #NAME; }                                              \
        template<class V> static auto apply(V a, V, V) VX_AUTO(EXPR)                             \
        template<class S> static std::uint64_t model(S a, S, S) {                                \
            const std::uint64_t x = bits_of(a); const unsigned B = nbits<S>(); (void)x; (void)B; \
            return std::uint64_t(MODEL) & low_mask(B);                                           \
        }                                                                                        \
        template<class S> static bool nontrivial(S a, S b, S c) { return bit_nt(a, model(a, b, c)); } \
    };

VX_BIT_OP(popcount,        avel::popcount(un(a)),        m_popcount(x))
VX_BIT_OP(countl_zero,     avel::countl_zero(un(a)),     m_clz(x, B))
VX_BIT_OP(countl_one,      avel::countl_one(un(a)),      m_clz(~x & low_mask(B), B))
VX_BIT_OP(countr_zero,     avel::countr_zero(un(a)),     m_ctz(x, B))
VX_BIT_OP(countr_one,      avel::countr_one(un(a)),      m_ctz(~x & low_mask(B), B))
VX_BIT_OP(bit_width,       avel::bit_width(un(a)),       B - m_clz(x, B))
VX_BIT_OP(bit_floor,       avel::bit_floor(un(a)),       m_bit_floor(x, B))
VX_BIT_OP(bit_ceil,        avel::bit_ceil(un(a)),        m_bit_ceil(x, B))
VX_BIT_OP(byteswap,        avel::byteswap(un(a)),        m_byteswap(x, B))
VX_BIT_OP(countl_sign,     avel::countl_sign(un(a)),     m_countl_sign(x, B))

struct has_single_bit : OpBase {
    static const int arity = 1;
    static const char* name() { return "has_single_bit"; }
    template<class V> static auto apply(V a, V, V) VX_AUTO(avel::has_single_bit(un(a)))
    template<class S> static std::uint64_t model(S a, S, S) { return m_popcount(bits_of(a)) == 1 ? 1 : 0; }
    template<class S> static bool nontrivial(S a, S b, S c) { return bit_nt(a, model(a, b, c)); }
};

}  // namespace obit
}  // namespace vx
#endif
