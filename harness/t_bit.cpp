// t_bit.cpp - C06: the <bit> family matches C++20 <bit> on the element's two's-complement pattern.

#include "ops_bit.hpp"

namespace vx {
using namespace obit;

template<class V>
inline void run_ops(const DomainS<typename V::scalar>& d1, const std::vector<typename V::scalar>& K) {
    explore<V, popcount>(d1, &K);
    explore<V, countl_zero>(d1, &K);
    explore<V, countl_one>(d1, &K);
    explore<V, countr_zero>(d1, &K);
    explore<V, countr_one>(d1, &K);
    explore<V, bit_width>(d1, &K);
    explore<V, bit_floor>(d1, &K);
    explore<V, bit_ceil>(d1, &K);
    explore<V, has_single_bit>(d1, &K);
    explore<V, byteswap>(d1, &K);
    explore<V, countl_sign>(d1, &K);
}

template<class V, unsigned BITS = 8 * sizeof(typename V::scalar)>
struct Plan {
    typedef typename V::scalar S;
    static void run(const std::vector<S>& K) { run_ops<V>(erase<S>(DomFull1<S>()), K); }
};
template<class V> struct Plan<V, 32> {
    typedef typename V::scalar S;
    static void run(const std::vector<S>& K) {
        if (exh32()) run_ops<V>(erase<S>(DomFull1<S>()), K);
        else run_ops<V>(erase<S>(DomList1<S>(as_scalars<S>(alphabet_L(32, true)), "L32")), K);
    }
};
template<class V> struct Plan<V, 64> {
    typedef typename V::scalar S;
    static void run(const std::vector<S>& K) { run_ops<V>(erase<S>(DomList1<S>(as_scalars<S>(alphabet_L(64, true)), "L64(full)")), K); }
};

template<class V>
struct PerType {
    typedef typename V::scalar S;
    static void run() { Plan<V>::run(as_scalars<S>(alphabet_K(8 * sizeof(S)))); }
};

}  // namespace vx

int main(int argc, char** argv) {
    if (int rc = vx::parse_args(argc, argv)) return rc;
    vx::obit::self_check();
    vx::for_each_int_type<vx::PerType>();
    vx::for_each_int_scalar<vx::PerType>();
    return vx::write_results("t_bit", vx::part_name());
}
