// ops_fround.hpp - operation definitions shared by t_fround.cpp and t_scalar.cpp (C16)
#ifndef VX_OPS_FROUND_HPP
#define VX_OPS_FROUND_HPP
#include "vx_float.hpp"

namespace vx {
namespace ofr {


template<class S> __attribute__((always_inline)) inline bool is_integral_or_special(S a) { return !(std::trunc(a) != a) || a != a; }  // NaN, inf, zero and integral values

// flag 1: the input is finite, non-zero and not integral -> a zero result may carry either sign ("the same number")
#define VX_RND_OP(NAME, EXPR, MODEL)                                                            \
    struct NAME : OpBase {                                                                      \
        static const int arity = 1;                                                             \
        static const char* name() { return #NAME; }                                             \
        template<class V> static auto apply(V a, V, V) VX_AUTO(EXPR)                            \
        template<class S> __attribute__((always_inline)) static inline std::uint64_t model(S a, S, S) { S x = a; S r = MODEL; return bits_of(r); } \
        template<class S> static unsigned flag(S a, S, S) { return is_integral_or_special(a) ? 0u : 1u; } \
        template<class S> static bool same(std::uint64_t e, std::uint64_t g) { return same_bits_nan<S>(e, g); } \
        template<class S> static bool same_f(std::uint64_t e, std::uint64_t g, unsigned fl) {   \
            if (same_bits_nan<S>(e, g)) return true;                                            \
            return fl && from_bits<S>(e) == S(0) && from_bits<S>(g) == S(0) && !is_nan_bits<S>(g); \
        }                                                                                       \
        template<class S> static bool nontrivial(S a, S, S) {                                   \
            if (is_integral_or_special(a)) return false;                                        \
            const S lim = sizeof(S) == 4 ? S(8388608.0) : S(4503599627370496.0);                \
            return std::fabs(a) < lim;                                                          \
        }                                                                                       \
    };
VX_RND_OP(ceil, avel::ceil(un(a)), std::ceil(x))
VX_RND_OP(floor, avel::floor(un(a)), std::floor(x))
VX_RND_OP(trunc, avel::trunc(un(a)), std::trunc(x))
VX_RND_OP(round, avel::round(un(a)), std::round(x))
VX_RND_OP(nearbyint, avel::nearbyint(un(a)), std::nearbyint(x))
VX_RND_OP(rint, avel::rint(un(a)), std::rint(x))

}  // namespace ofr
}  // namespace vx
#endif
