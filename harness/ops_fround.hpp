// ops_fround.hpp - operation definitions shared by t_fround.cpp and t_scalar.cpp (C16)
#ifndef VX_OPS_FROUND_HPP
#define VX_OPS_FROUND_HPP
#include "vx_float.hpp"

namespace vx {
namespace ofr {


template<class S> __attribute__((always_inline)) inline bool is_integral_or_special(S a) { return !(std::trunc(a) != a) || a != a; }  // NaN, inf, zero and integral values

// round-half-away reference on the bit pattern, independent of the rounding mode. std::round cannot serve in the directed modes: Clang expands it
// inline to trunc(x + copysign(0.5 - ulp, x)), which is only right under FE_TONEAREST, and it folds floating-point selects into additions of -0.0
// (both were seen as false alarms). check_round_reference() binds this function to glibc's round in every mode.
template<class S> __attribute__((always_inline)) inline S ref_round(S x) {
    const int MB = sizeof(S) == 4 ? 23 : 52, EB = sizeof(S) == 4 ? 8 : 11, bias = (1 << (EB - 1)) - 1;
    const std::uint64_t signbit = std::uint64_t(1) << (MB + EB);
    const std::uint64_t u = bits_of(x), sign = u & signbit;
    std::uint64_t mag = u & (signbit - 1);
    const int e = int(mag >> MB) - bias;
    if (e >= MB) return x;                                               // integral already, infinity or NaN
    if (e < -1) return from_bits<S>(sign);                               // |x| < 0.5
    if (e == -1) return from_bits<S>(sign | (std::uint64_t(bias) << MB));  // 0.5 <= |x| < 1
    mag += (std::uint64_t(1) << (MB - 1)) >> e;
    mag &= ~(((std::uint64_t(1) << MB) - 1) >> e);
    return from_bits<S>(sign | mag);
}
inline float libm_round(float x) { static float (*volatile f)(float) = &::roundf; return f(x); }
inline double libm_round(double x) { static double (*volatile f)(double) = &::round; return f(x); }
template<class S> inline void check_round_reference(const std::vector<S>& members) {
    for (std::size_t i = 0; i < members.size(); ++i) {
        S a = ref_round(members[i]), b = libm_round(members[i]);
        if (!same_bits_nan<S>(bits_of(a), bits_of(b))) {
            std::fprintf(stderr, "harness self-check failed: ref_round(%a) = %a but the C library's round gives %a (rounding mode %d)\n",
                         double(members[i]), double(a), double(b), std::fegetround());
            std::abort();
        }
    }
}

// flag 1: the input is finite, non-zero and not integral -> a zero result may carry either sign ("the same number")
#define VX_RND_OP(NAME, EXPR, MODEL)                                                            \
    struct NAME : OpBase {                                                                      \
        static const int arity = 1;                                                             \
        static const char* name() { return #NAME; }                                             \
        template<class V> static auto apply(V a, V, V) VX_AUTO(EXPR)                            \
        template<class S> __attribute__((always_inline)) static inline std::uint64_t model(S a, S, S) { S x = a; S r = MODEL; return bits_of(r); } \
        template<class S> static unsigned flag(S a, S, S) { return is_integral_or_special(a) ? 0u : 1u; } \
        template<class S> static bool same(std::uint64_t e, std::uint64_t g) { return same_bits_nan<S>(e, g); } \
        template<class S> static bool same_f(std::uint64_t e, std::uint64_t g, unsigned fl) {   \
            if (same_bits_nan<S>(e, g)) return true;                                            \
            return fl && from_bits<S>(e) == S(0) && from_bits<S>(g) == S(0) && !is_nan_bits<S>(g); \
        }                                                                                       \
        template<class S> static bool nontrivial(S a, S, S) {                                   \
            if (is_integral_or_special(a)) return false;                                        \
            const S lim = sizeof(S) == 4 ? S(8388608.0) : S(4503599627370496.0);                \
            return std::fabs(a) < lim;                                                          \
        }                                                                                       \
    };
VX_RND_OP(ceil, avel::ceil(un(a)), std::ceil(x))
VX_RND_OP(floor, avel::floor(un(a)), std::floor(x))
VX_RND_OP(trunc, avel::trunc(un(a)), std::trunc(x))
VX_RND_OP(round, avel::round(un(a)), ref_round(x))
VX_RND_OP(nearbyint, avel::nearbyint(un(a)), std::nearbyint(x))
VX_RND_OP(rint, avel::rint(un(a)), std::rint(x))

}  // namespace ofr
}  // namespace vx
#endif
