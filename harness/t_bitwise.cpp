// t_bitwise.cpp - C04: & | ^ ~, shifts by scalar and by per-lane vector (amounts 0..bits), rotations by scalar and per-lane vector.
#include "vx_bitmodels.hpp"

namespace vx {

#define VX_BW_OP(NAME, ARITY, EXPR, MODEL)                                                     \
    struct NAME : OpBase {                                                                      \
        static const int arity = ARITY;                                                         \
        static const char* name() { return #NAME; }                                             \
        template<class V> static auto apply(V a, V b, V) VX_AUTO(EXPR)                          \
        template<class S> static std::uint64_t model(S a, S b, S) {                             \
            const std::uint64_t ua = bits_of(a), ub = bits_of(b); (void)ua; (void)ub;           \
            return (MODEL) & low_mask(nbits<S>());                                              \
        }                                                                                       \
        template<class S> static bool nontrivial(S a, S b, S) { return bits_of(a) != 0 && bits_of(b) != 0 && bits_of(a) != bits_of(b); } \
    };
VX_BW_OP(bit_and, 2, a & b, ua & ub)
VX_BW_OP(bit_or, 2, a | b, ua | ub)
VX_BW_OP(bit_xor, 2, a ^ b, ua ^ ub)
VX_BW_OP(bit_and_assign, 2, V(a &= b), ua & ub)
VX_BW_OP(bit_or_assign, 2, V(a |= b), ua | ub)
VX_BW_OP(bit_xor_assign, 2, V(a ^= b), ua ^ ub)
VX_BW_OP(bit_not, 1, ~a, ~ua)

// ---- per-lane amounts -------------------------------------------------------------------

template<class S> inline const std::vector<S>& shift_fills() {
    static std::vector<S> v;
    if (v.empty()) {
        typedef typename uint_of<S>::type U;
        const unsigned B = nbits<S>();
        U top = U(U(1) << (B - 1));
        U raw[] = {U(0), U(0), U(~U(0)), U(B), top, U(1), U(top - 1), U(B - 1), U(1), U(B), U(~U(0)), U(0)};
        for (unsigned i = 0; i < sizeof(raw) / sizeof(raw[0]); ++i) { S s; std::memcpy(&s, &raw[i], sizeof s); v.push_back(s); }
    }
    return v;
}

template<class S> inline bool amount_ok(S b) { return !(b < S(0)) && bits_of(b) <= nbits<S>(); }

#define VX_SHV_OP(NAME, EXPR, MODEL, DOMAIN)                                                    \
    struct NAME : OpBase {                                                                      \
        static const int arity = 2;                                                             \
        static const char* name() { return #NAME; }                                             \
        template<class V> static auto apply(V a, V b, V) VX_AUTO(EXPR)                          \
        template<class S> static std::uint64_t model(S a, S b, S) { return MODEL; }             \
        template<class S> static bool in_domain(S a, S b, S) { (void)a; (void)b; return DOMAIN; } \
        template<class S> static bool nontrivial(S a, S b, S) { return shift_nt(a, unsigned(bits_of(b) & 0xff)); } \
        template<class S> static const std::vector<S>& fills() { return shift_fills<S>(); }     \
    };
VX_SHV_OP(shl_vec, a << b, m_shl(a, unsigned(bits_of(b))), amount_ok(b))
VX_SHV_OP(shr_vec, a >> b, m_shr(a, unsigned(bits_of(b))), amount_ok(b))
VX_SHV_OP(shl_vec_assign, V(a <<= b), m_shl(a, unsigned(bits_of(b))), amount_ok(b))
VX_SHV_OP(shr_vec_assign, V(a >>= b), m_shr(a, unsigned(bits_of(b))), amount_ok(b))
VX_SHV_OP(rotl_vec, avel::rotl(a, b), m_rotl(a, unsigned(bits_of(b) & (nbits<S>() - 1))), true)
VX_SHV_OP(rotr_vec, avel::rotr(a, b), m_rotr(a, unsigned(bits_of(b) & (nbits<S>() - 1))), true)

}  // namespace vx
#include "ops_shift.hpp"
namespace vx {

template<class V>
struct PerType {
    typedef typename V::scalar S;
    static void run() {
        const unsigned B = 8 * sizeof(S);
        std::vector<S> K = as_scalars<S>(alphabet_K(B));
        // value alphabets: every value for 8/16-bit; one/two-bit, mask and boundary patterns for 32/64-bit
        std::vector<S> vals;
        if (B <= 16) { for (std::uint64_t i = 0; i < (1ull << B); ++i) { typename uint_of<S>::type u = (typename uint_of<S>::type)i; S s; std::memcpy(&s, &u, sizeof s); vals.push_back(s); } }
        else vals = as_scalars<S>(alphabet_L(B, B == 32 ? true : opt().thorough));
        std::vector<S> amts, anyamt;
        for (unsigned s = 0; s <= B; ++s) amts.push_back(S(s));
        // rotation amounts per lane: 0..2B+1, multiples, the extremes of the element type
        { std::vector<std::uint64_t> r; for (unsigned s = 0; s <= 2 * B + 1; ++s) r.push_back(s);
          std::vector<std::uint64_t> k = alphabet_K(B); r.insert(r.end(), k.begin(), k.end()); sort_unique(r);
          for (std::size_t i = 0; i < r.size(); ++i) r[i] &= low_mask(B); sort_unique(r); anyamt = as_scalars<S>(r); }
        const char* vn = B <= 16 ? "every value" : (B == 32 ? "L32" : "L64");
        // bitwise
        if (B == 8) { DomainOf<S, DomFull2<S> > d = erase<S>(DomFull2<S>()); bitwise(d, K); }
        else if (B == 16 && exh16()) { DomainOf<S, DomFull2<S> > d = erase<S>(DomFull2<S>()); bitwise(d, K); }
        else if (B == 16) { DomainOf<S, DomCross2<S> > d = erase<S>(DomCross2<S>(as_scalars<S>(alphabet_L(16, false)), "D16 x L16 union L16 x D16")); bitwise(d, K); }
        else { DomainOf<S, DomProd2<S> > d = erase<S>(DomProd2<S>(vals, vals, std::string(vn) + " x " + vn)); bitwise(d, K); }
        explore<V, bit_not>(erase<S>(DomList1<S>(vals, vn)), &K);
        // per-lane amounts: every lane of a vector carries a different amount (amount index varies fastest)
        DomainOf<S, DomProd2<S> > dsh = erase<S>(DomProd2<S>(vals, amts, std::string(vn) + " x amounts 0..bits").swapped());
        explore<V, shl_vec>(dsh, &K);
        explore<V, shr_vec>(dsh, &K);
        explore<V, shl_vec_assign>(dsh, &K);
        explore<V, shr_vec_assign>(dsh, &K);
        DomainOf<S, DomProd2<S> > drt = erase<S>(DomProd2<S>(vals, anyamt, std::string(vn) + " x rotation amounts (0..2*bits+1, K)").swapped());
        explore<V, rotl_vec>(drt, &K);
        explore<V, rotr_vec>(drt, &K);
        // uniform scalar amounts
        DomainOf<S, DomUniform<S> > dus = erase<S>(DomUniform<S>(vals, unsigned(shift_table(B).size()), std::string(vn) + " x scalar amounts 0..bits"));
        explore<V, shl_scalar>(dus, 0);
        explore<V, shr_scalar>(dus, 0);
        explore<V, shl_scalar_assign>(dus, 0);
        explore<V, shr_scalar_assign>(dus, 0);
        DomainOf<S, DomUniform<S> > dur = erase<S>(DomUniform<S>(vals, unsigned(rot_table(B).size()), std::string(vn) + " x scalar rotation amounts (0..2*bits+1, k*bits+r, negative, +-2^31, +-2^62, LLONG_MIN/MAX)"));
        explore<V, rotl_scalar>(dur, 0);
        explore<V, rotr_scalar>(dur, 0);
    }
    static void bitwise(const DomainS<S>& d2, const std::vector<S>& K) {
        explore<V, bit_and>(d2, &K);
        explore<V, bit_or>(d2, &K);
        explore<V, bit_xor>(d2, &K);
        explore<V, bit_and_assign>(d2, &K);
        explore<V, bit_or_assign>(d2, &K);
        explore<V, bit_xor_assign>(d2, &K);
    }
};

}  // namespace vx

int main(int argc, char** argv) {
    if (int rc = vx::parse_args(argc, argv)) return rc;
    vx::for_each_int_type<vx::PerType>();
    vx::for_each_int_scalar<vx::PerType>();
    return vx::write_results("t_bitwise", vx::part_name());
}
