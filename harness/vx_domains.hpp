// vx_domains.hpp - deterministic input alphabets and tuple domains (DESIGN.md section 4).
// Membership never depends on VERIF_SEED.
#ifndef VX_DOMAINS_HPP
#define VX_DOMAINS_HPP

#include "vx_core.hpp"
#include <algorithm>
#include <limits>

namespace vx {

inline void sort_unique(std::vector<std::uint64_t>& v) {
    std::sort(v.begin(), v.end());
    v.erase(std::unique(v.begin(), v.end()), v.end());
}

inline std::uint64_t low_mask(unsigned bits) { return bits >= 64 ? ~0ull : ((1ull << bits) - 1); }
template<class S> inline unsigned nbits() { return 8 * sizeof(S); }

// R(b, n): n fixed pseudo-random patterns (splitmix64 sequence, identical in every run): the unstructured members of the declared alphabets.
// They are enumerated like every other member; nothing is drawn at run time.
inline std::vector<std::uint64_t> alphabet_R(unsigned bits, unsigned n) {
    std::vector<std::uint64_t> v;
    std::uint64_t x = 0xA5A5F00D12345678ull + bits;
    for (unsigned i = 0; i < n; ++i) {
        x += 0x9E3779B97F4A7C15ull;
        std::uint64_t z = x;
        z = (z ^ (z >> 30)) * 0xBF58476D1CE4E5B9ull;
        z = (z ^ (z >> 27)) * 0x94D049BB133111EBull;
        z ^= z >> 31;
        v.push_back(z & (bits >= 64 ? ~0ull : ((1ull << bits) - 1)));
    }
    return v;
}

// K(b): core alphabet, about 40 values per width
inline std::vector<std::uint64_t> alphabet_K(unsigned bits) {
    const std::uint64_t M = low_mask(bits);
    std::vector<std::uint64_t> v;
    const std::uint64_t top = 1ull << (bits - 1);
    std::uint64_t base[] = {0, 1, 2, 3, M, M - 1, M - 2, top, top + 1, top - 1, top - 2, top + 2};
    for (unsigned i = 0; i < sizeof(base) / sizeof(base[0]); ++i) v.push_back(base[i] & M);
    for (unsigned sub = 8; sub < bits; sub *= 2) {
        std::uint64_t s = 1ull << sub, h = 1ull << (sub - 1);
        std::uint64_t e[] = {h - 1, h, h + 1, s - 1, s, s + 1, M - s + 1, M - s, M - h + 1, M - h, M - h + 2};
        for (unsigned i = 0; i < sizeof(e) / sizeof(e[0]); ++i) v.push_back(e[i] & M);
    }
    v.push_back(0x5555555555555555ull & M);
    v.push_back(0xAAAAAAAAAAAAAAAAull & M);
    sort_unique(v);
    return v;
}

// L(b): boundary lattice. 8 -> all values; 16 -> ~200; 32 -> ~2400; 64 -> ~1000 (small) / ~6000 (full)
inline std::vector<std::uint64_t> alphabet_L(unsigned bits, bool full) {
    const std::uint64_t M = low_mask(bits);
    std::vector<std::uint64_t> v;
    if (bits == 8) {
        for (unsigned i = 0; i < 256; ++i) v.push_back(i);
        return v;
    }
    std::vector<std::uint64_t> k = alphabet_K(bits);
    v.insert(v.end(), k.begin(), k.end());
    for (unsigned i = 0; i < bits; ++i) {
        std::uint64_t p = 1ull << i;
        std::uint64_t e[] = {p, p - 1, p + 1, ~p, (0 - p), ~p - 1, ~p + 1, (0 - p) - 1, (0 - p) + 1};
        for (unsigned j = 0; j < 9; ++j) v.push_back(e[j] & M);
    }
    // every sub-lane of the next smaller granularity drawn from {00..,00..1,7F..,80..,FF..}
    {
        unsigned parts = (bits == 16) ? 2 : 4;  // 16: bytes; 32: bytes; 64: 16-bit quarters
        unsigned pb = bits / parts;
        std::uint64_t pm = low_mask(pb);
        std::uint64_t vals[5] = {0, 1, pm >> 1, (pm >> 1) + 1, pm};
        unsigned total = 1;
        for (unsigned i = 0; i < parts; ++i) total *= 5;
        for (unsigned c = 0; c < total; ++c) {
            std::uint64_t x = 0;
            unsigned t = c;
            for (unsigned i = 0; i < parts; ++i) {
                x |= vals[t % 5] << (i * pb);
                t /= 5;
            }
            v.push_back(x & M);
        }
    }
    if (bits >= 32) {
        // halves from the 5-value set
        unsigned pb = bits / 2;
        std::uint64_t pm = low_mask(pb);
        std::uint64_t vals[5] = {0, 1, pm >> 1, (pm >> 1) + 1, pm};
        for (unsigned i = 0; i < 5; ++i)
            for (unsigned j = 0; j < 5; ++j) v.push_back((vals[i] | (vals[j] << pb)) & M);
    }
    if (bits == 64) {
        // bytes of the low and of the high 32 bits from the 5-value set (catches byte-wise emulations)
        std::uint64_t vals[5] = {0, 1, 0x7f, 0x80, 0xff};
        for (unsigned c = 0; c < 625; ++c) {
            std::uint64_t x = 0;
            unsigned t = c;
            for (unsigned i = 0; i < 4; ++i) { x |= vals[t % 5] << (i * 8); t /= 5; }
            v.push_back(x);
            if (full) {
                v.push_back(x << 32);
                v.push_back(x | (x << 32));
            }
        }
    }
    if (bits == 32 || full) {
        // two-bit patterns, low/high masks and neighbours
        for (unsigned i = 0; i < bits; ++i)
            for (unsigned j = i + 1; j < bits; ++j) v.push_back(((1ull << i) | (1ull << j)) & M);
        for (unsigned i = 1; i < bits; ++i) {
            std::uint64_t lo = low_mask(i), hi = (~lo) & M;
            std::uint64_t e[] = {lo, lo - 1, lo + 1, hi, hi - 1, hi + 1};
            for (unsigned j = 0; j < 6; ++j) v.push_back(e[j] & M);
        }
    }
    { std::vector<std::uint64_t> r = alphabet_R(bits, bits == 16 ? 64 : (full ? 512 : 256)); v.insert(v.end(), r.begin(), r.end()); }
    sort_unique(v);
    return v;
}

template<class S>
inline std::vector<S> as_scalars(const std::vector<std::uint64_t>& v) {
    std::vector<S> out;
    out.reserve(v.size());
    for (std::size_t i = 0; i < v.size(); ++i) {
        typename uint_of<S>::type u = static_cast<typename uint_of<S>::type>(v[i]);
        S s;
        std::memcpy(&s, &u, sizeof s);
        out.push_back(s);
    }
    return out;
}

//-----------------------------------------------------------------------------------------
// tuple domains: size() and get(i, a, b, c)
//-----------------------------------------------------------------------------------------

template<class S>
struct DomFull1 {  // every value of an 8/16/32-bit element type
    std::uint64_t size() const { return 1ull << (8 * sizeof(S)); }
    void get(std::uint64_t i, S& a, S& b, S& c) const {
        typename uint_of<S>::type u = static_cast<typename uint_of<S>::type>(i);
        std::memcpy(&a, &u, sizeof a);
        b = a; c = a;
    }
    std::string name() const { return "every value (exhaustive)"; }
    bool exhaustive() const { return true; }
};

template<class S>
struct DomFull2 {  // every pair of an 8/16-bit element type
    std::uint64_t size() const { return 1ull << (16 * sizeof(S)); }
    void get(std::uint64_t i, S& a, S& b, S& c) const {
        typedef typename uint_of<S>::type U;
        U ua = static_cast<U>(i), ub = static_cast<U>(i >> (8 * sizeof(S)));
        std::memcpy(&a, &ua, sizeof a);
        std::memcpy(&b, &ub, sizeof b);
        c = a;
    }
    std::string name() const { return "every pair (exhaustive)"; }
    bool exhaustive() const { return true; }
};

template<class S>
struct DomFull3 {  // every triple of an 8-bit type
    std::uint64_t size() const { return 1ull << (24 * sizeof(S)); }
    void get(std::uint64_t i, S& a, S& b, S& c) const {
        typedef typename uint_of<S>::type U;
        U ua = static_cast<U>(i), ub = static_cast<U>(i >> (8 * sizeof(S))), uc = static_cast<U>(i >> (16 * sizeof(S)));
        std::memcpy(&a, &ua, sizeof a);
        std::memcpy(&b, &ub, sizeof b);
        std::memcpy(&c, &uc, sizeof c);
    }
    std::string name() const { return "every triple (exhaustive)"; }
    bool exhaustive() const { return true; }
};

template<class S>
struct DomList1 {
    std::vector<S> A;
    std::string nm;
    DomList1(const std::vector<S>& a, const std::string& n) : A(a), nm(n) {}
    std::uint64_t size() const { return A.size(); }
    void get(std::uint64_t i, S& a, S& b, S& c) const { a = A[i]; b = a; c = a; }
    std::string name() const { return nm; }
    bool exhaustive() const { return false; }
};

template<class S>
struct DomProd2 {
    std::vector<S> A, B;
    std::string nm;
    DomProd2(const std::vector<S>& a, const std::vector<S>& b, const std::string& n) : A(a), B(b), nm(n), bfast(false) {}
    bool bfast;
    std::uint64_t size() const { return std::uint64_t(A.size()) * B.size(); }
    void get(std::uint64_t i, S& a, S& b, S& c) const {
        if (bfast) { b = B[i % B.size()]; a = A[i / B.size()]; }
        else { a = A[i % A.size()]; b = B[i / A.size()]; }
        c = a;
    }
    DomProd2 swapped() const { DomProd2 d(*this); d.bfast = true; return d; }
    std::string name() const { return nm; }
    bool exhaustive() const { return false; }
};

template<class S>
struct DomProd3 {
    std::vector<S> A, B, C;
    std::string nm;
    DomProd3(const std::vector<S>& a, const std::vector<S>& b, const std::vector<S>& c, const std::string& n) : A(a), B(b), C(c), nm(n) {}
    std::uint64_t size() const { return std::uint64_t(A.size()) * B.size() * C.size(); }
    void get(std::uint64_t i, S& a, S& b, S& c) const {
        a = A[i % A.size()];
        std::uint64_t r = i / A.size();
        b = B[r % B.size()];
        c = C[r / B.size()];
    }
    std::string name() const { return nm; }
    bool exhaustive() const { return false; }
};

// D x L  union  L x D for 16-bit types
template<class S>
struct DomCross2 {
    std::vector<S> L;
    std::string nm;
    DomCross2(const std::vector<S>& l, const std::string& n) : L(l), nm(n) {}
    std::uint64_t size() const { return 2ull * L.size() * (1ull << (8 * sizeof(S))); }
    void get(std::uint64_t i, S& a, S& b, S& c) const {
        typedef typename uint_of<S>::type U;
        const std::uint64_t D = 1ull << (8 * sizeof(S));
        const std::uint64_t half = L.size() * D;
        bool swap = i >= half;
        if (swap) i -= half;
        U ud = static_cast<U>(i % D);
        S d;
        std::memcpy(&d, &ud, sizeof d);
        S l = L[i / D];
        a = swap ? l : d;
        b = swap ? d : l;
        c = a;
    }
    std::string name() const { return nm; }
    bool exhaustive() const { return false; }
};


//-----------------------------------------------------------------------------------------
// floating-point alphabets (bit patterns)
//-----------------------------------------------------------------------------------------

// F32L: every exponent x boundary mantissas x sign, subnormal powers of two; ~4200 patterns incl. both NaN kinds
inline std::vector<std::uint64_t> alphabet_F32L() {
    std::vector<std::uint64_t> v;
    const std::uint32_t mant[] = {0, 1, 2, 0x3FFFFF, 0x400000, 0x400001, 0x7FFFFE, 0x7FFFFF};
    for (std::uint32_t sgn = 0; sgn < 2; ++sgn)
        for (std::uint32_t e = 0; e < 256; ++e)
            for (unsigned m = 0; m < 8; ++m) v.push_back((sgn << 31) | (e << 23) | mant[m]);
    for (std::uint32_t sgn = 0; sgn < 2; ++sgn)
        for (unsigned k = 0; k < 23; ++k) {
            v.push_back((sgn << 31) | (1u << k));
            v.push_back((sgn << 31) | ((1u << k) - 1));
            v.push_back((sgn << 31) | ((1u << k) + 1));
        }
    { std::vector<std::uint64_t> r = alphabet_R(32, 512); v.insert(v.end(), r.begin(), r.end()); }
    sort_unique(v);
    return v;
}

inline std::uint32_t f2u(float f) { std::uint32_t u; std::memcpy(&u, &f, 4); return u; }
inline std::uint64_t d2u(double f) { std::uint64_t u; std::memcpy(&u, &f, 8); return u; }

// F32H: k, k +- 1/2, and their ulp neighbours for |k| up to 4096 and around 2^22..2^25: halfway and near-halfway cases
inline std::vector<std::uint64_t> alphabet_F32H() {
    std::vector<std::uint64_t> v;
    std::vector<float> base;
    for (int k = 0; k <= 4096; ++k) base.push_back(float(k));
    for (int e = 21; e <= 25; ++e)
        for (int d = -4; d <= 4; ++d) base.push_back(std::ldexp(1.0f, e) + float(d));
    for (std::size_t i = 0; i < base.size(); ++i)
        for (int sg = 0; sg < 2; ++sg)
            for (int h = -1; h <= 1; ++h) {
                float x = base[i] + 0.5f * float(h);
                if (sg) x = -x;
                std::uint32_t u = f2u(x);
                v.push_back(u);
                v.push_back(u + 1);
                v.push_back(u - 1);
            }
    sort_unique(v);
    return v;
}

// F64L: boundary exponents x 8 mantissas x sign (~1100) for pairs
inline std::vector<std::uint64_t> alphabet_F64L() {
    std::vector<std::uint64_t> v;
    std::vector<unsigned> exps;
    const unsigned ex[] = {0, 1, 2, 3, 1023 - 64, 1023 - 63, 1023 - 53, 1023 - 52, 1023 - 32, 1023 - 31, 1023 - 2, 1023 - 1, 1023,
                           1023 + 1, 1023 + 2, 1023 + 30, 1023 + 31, 1023 + 32, 1023 + 51, 1023 + 52, 1023 + 53, 1023 + 54, 1023 + 62,
                           1023 + 63, 1023 + 64, 1023 - 126, 1023 - 127, 1023 - 149, 1023 - 150, 1023 + 127, 1023 + 128, 2044, 2045, 2046, 2047,
                           52, 53, 54, 1023 - 1022, 1023 + 1000, 1023 - 1000, 1023 + 500, 1023 - 500, 1023 + 10, 1023 - 10, 1023 + 100, 1023 - 100};
    for (unsigned i = 0; i < sizeof(ex) / sizeof(ex[0]); ++i) exps.push_back(ex[i]);
    const std::uint64_t mant[] = {0, 1, 2, 0x7FFFFFFFFFFFFull, 0x8000000000000ull, 0x8000000000001ull, 0xFFFFFFFFFFFFEull, 0xFFFFFFFFFFFFFull};
    for (std::uint64_t sgn = 0; sgn < 2; ++sgn)
        for (std::size_t e = 0; e < exps.size(); ++e)
            for (unsigned m = 0; m < 8; ++m) v.push_back((sgn << 63) | (std::uint64_t(exps[e]) << 52) | mant[m]);
    { std::vector<std::uint64_t> r = alphabet_R(64, 256); v.insert(v.end(), r.begin(), r.end()); }
    sort_unique(v);
    return v;
}

// F64S: every exponent x ~110 mantissas x sign, plus consecutive windows and halfway families (~500k patterns)
inline std::vector<std::uint64_t> alphabet_F64S(bool full) {
    std::vector<std::uint64_t> v;
    std::vector<std::uint64_t> mant;
    mant.push_back(0); mant.push_back(1); mant.push_back(0xFFFFFFFFFFFFFull); mant.push_back(0xFFFFFFFFFFFFEull);
    for (unsigned j = 0; j < 52; ++j) {
        mant.push_back(1ull << j);
        mant.push_back((1ull << j) - 1);
        if (full) {
            mant.push_back((1ull << j) + 1);
            mant.push_back(0xFFFFFFFFFFFFFull ^ ((1ull << j) - 1));
        }
    }
    std::sort(mant.begin(), mant.end());
    mant.erase(std::unique(mant.begin(), mant.end()), mant.end());
    for (std::uint64_t sgn = 0; sgn < 2; ++sgn)
        for (std::uint64_t e = 0; e < 2048; ++e)
            for (std::size_t m = 0; m < mant.size(); ++m) v.push_back((sgn << 63) | (e << 52) | mant[m]);
    // windows of consecutive patterns around the integer-precision limits
    const double centres[] = {4503599627370496.0 / 2, 4503599627370496.0, 9007199254740992.0, 2.2250738585072014e-308, 1.7976931348623157e308, 1.0, 0.5, 2.0};
    const int win = full ? 2048 : 256;
    for (unsigned c = 0; c < sizeof(centres) / sizeof(centres[0]); ++c)
        for (int sg = 0; sg < 2; ++sg) {
            std::uint64_t u = d2u(sg ? -centres[c] : centres[c]);
            for (int d = -win; d <= win; ++d) v.push_back(u + std::uint64_t(std::int64_t(d)));
        }
    // k +- 1/2 and ulp neighbours, small k and around 2^51..2^53
    std::vector<double> base;
    for (int k = 0; k <= (full ? 4096 : 512); ++k) base.push_back(double(k));
    for (int e = 50; e <= 54; ++e)
        for (int d = -4; d <= 4; ++d) base.push_back(std::ldexp(1.0, e) + double(d));
    for (int e = 22; e <= 33; ++e)
        for (int d = -2; d <= 2; ++d) base.push_back(std::ldexp(1.0, e) + double(d));
    for (std::size_t i = 0; i < base.size(); ++i)
        for (int sg = 0; sg < 2; ++sg)
            for (int h = -1; h <= 1; ++h) {
                double x = base[i] + 0.5 * double(h);
                if (sg) x = -x;
                std::uint64_t u = d2u(x);
                v.push_back(u); v.push_back(u + 1); v.push_back(u - 1);
            }
    { std::vector<std::uint64_t> r = alphabet_R(64, 4096); v.insert(v.end(), r.begin(), r.end()); }
    sort_unique(v);
    return v;
}

// K for floats: the core alphabet used in the lane-placement pass
template<class S>
inline std::vector<S> alphabet_KF() {
    typedef std::numeric_limits<S> NL;
    std::vector<S> v;
    const S pos[] = {S(0), S(1), S(0.5), S(1.5), S(2), S(2.5), S(3), NL::infinity(), NL::quiet_NaN(), NL::denorm_min(), NL::min(), NL::max(),
                     std::ldexp(S(1), NL::digits - 1), std::ldexp(S(1), NL::digits - 1) + S(1), std::ldexp(S(1), NL::digits - 2) + S(0.5), S(1e10), S(0.75), S(1) + NL::epsilon()};
    for (unsigned i = 0; i < sizeof(pos) / sizeof(pos[0]); ++i) { v.push_back(pos[i]); v.push_back(-pos[i]); }
    typename uint_of<S>::type snan_bits = (typename uint_of<S>::type)(bits_of(NL::infinity()) | 1);
    S snan;
    std::memcpy(&snan, &snan_bits, sizeof snan);
    v.push_back(snan);
    return v;
}

}  // namespace vx
#endif
