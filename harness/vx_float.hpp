// vx_float.hpp - comparison modes and helpers for the floating-point harnesses (DESIGN.md section 5)
#ifndef VX_FLOAT_HPP
#define VX_FLOAT_HPP
#include "vx_explore.hpp"
#include <cfloat>

namespace vx {

template<class S> inline S from_bits(std::uint64_t b) {
    typename uint_of<S>::type u = (typename uint_of<S>::type)b;
    S s;
    std::memcpy(&s, &u, sizeof s);
    return s;
}
template<class S> inline bool is_nan_bits(std::uint64_t b) { S s = from_bits<S>(b); return s != s; }

// BITS, except that any NaN matches any NaN (payload and sign free)
template<class S> inline bool same_bits_nan(std::uint64_t e, std::uint64_t g) {
    if (e == g) return true;
    return is_nan_bits<S>(e) && is_nan_bits<S>(g);
}
// VALUE: +0 and -0 are the same number; NaN matches NaN
template<class S> inline bool same_value_nan(std::uint64_t e, std::uint64_t g) {
    if (e == g) return true;
    if (is_nan_bits<S>(e) || is_nan_bits<S>(g)) return is_nan_bits<S>(e) && is_nan_bits<S>(g);
    return from_bits<S>(e) == from_bits<S>(g);
}

struct RoundMode { int mode; const char* suffix; };
inline const RoundMode* round_modes() {
    static const RoundMode m[4] = {{FE_TONEAREST, "@nearest"}, {FE_UPWARD, "@upward"}, {FE_DOWNWARD, "@downward"}, {FE_TOWARDZERO, "@towardzero"}};
    return m;
}

// integer vector with the same lane count and lane size as a float vector, filled with the float lanes' raw bits
template<class V> struct int_peer {
    typedef avel::Vector<typename sint_of<typename V::scalar>::type, V::width> type;
};
template<class V>
inline typename int_peer<V>::type bits_as_int_vector(V b) {
    typename int_peer<V>::type r;
    static_assert(sizeof(r) == sizeof(b), "peer size");
    std::memcpy(static_cast<void*>(&r), static_cast<const void*>(&b), sizeof r);
    return r;
}
template<class S>
inline typename sint_of<S>::type bits_as_int_vector(Sc<S> b) {
    typename sint_of<S>::type r;
    std::memcpy(&r, &b.v, sizeof r);
    return r;
}
template<class S> inline long long int_of_bits(S b) { typename sint_of<S>::type r; std::memcpy(&r, &b, sizeof r); return r; }

}  // namespace vx
#endif
