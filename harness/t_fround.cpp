// t_fround.cpp - C11: ceil/floor/trunc/round/nearbyint/rint match <cmath> in each of the four rounding modes.

#include "ops_fround.hpp"

namespace vx {
using namespace ofr;

template<class V>
struct PerType {
    typedef typename V::scalar S;
    static bool widest() { return V::width == max_width<S>::value; }
    static void run_mode(int m) {
        const bool f32 = sizeof(S) == 4;
        std::vector<S> K = alphabet_KF<S>();
        std::vector<S> U;
        if (f32) { std::vector<std::uint64_t> u = alphabet_F32L(), h = alphabet_F32H(); u.insert(u.end(), h.begin(), h.end()); sort_unique(u); U = as_scalars<S>(u); }
        else U = as_scalars<S>(alphabet_F64S(opt().thorough));
        DomainOf<S, DomList1<S> > lat = erase<S>(DomList1<S>(U, f32 ? "F32L u F32H" : "F64S"));
#ifdef VX_EXH_QUICK
        const bool exhaustive = f32 && (exh32() || (!opt().thorough && widest()));
#else
        const bool exhaustive = f32 && exh32();
#endif
        if (V::width == 1) { check_round_reference<S>(U); check_round_reference<S>(K); }  // in the current rounding mode
        run_all(m, lat, K, exhaustive, std::integral_constant<bool, sizeof(S) == 4>());
    }
    static void run_all(int m, const DomainS<S>& lat, const std::vector<S>& K, bool exhaustive, std::true_type) {
        DomainOf<S, DomFull1<S> > full = erase<S>(DomFull1<S>());
        const DomainS<S>& d = exhaustive ? static_cast<const DomainS<S>&>(full) : lat;
        // nearbyint / rint in non-default modes: exhaustive only in thorough
        const DomainS<S>& dm = (m == 0 || opt().thorough) ? d : lat;
        ops(m, d, dm, K);
    }
    static void run_all(int m, const DomainS<S>& lat, const std::vector<S>& K, bool, std::false_type) { ops(m, lat, lat, K); }
    static void ops(int m, const DomainS<S>& d, const DomainS<S>& dm, const std::vector<S>& K) {
        // ceil/floor/trunc/round do not depend on the rounding mode in <cmath>; an implementation built on additions would (found by seed C11-c):
        // the default mode gets the deep domain, the three directed modes the lattice (quick) / the deep domain (thorough)
        const DomainS<S>& dr = m == 0 ? d : dm;
        explore<V, ceil>(dr, &K);
        explore<V, floor>(dr, &K);
        explore<V, trunc>(dr, &K);
#if defined(__clang__)
        // width-1 and scalar round forward to std::round, which Clang expands inline to trunc(x + copysign(0.5 - ulp, x)) when SSE4.1 is available:
        // wrong under a directed mode, but that is the compiler's expansion of the C library call and not AVEL code; not explored there
        if (m == 0 || V::width > 1) explore<V, round>(dr, &K);
#else
        explore<V, round>(dr, &K);
#endif
        explore<V, nearbyint>(dm, &K);
        explore<V, rint>(dm, &K);
    }
};

template<class V> struct Mode0 { static void run() { PerType<V>::run_mode(0); } };
template<class V> struct Mode1 { static void run() { PerType<V>::run_mode(1); } };
template<class V> struct Mode2 { static void run() { PerType<V>::run_mode(2); } };
template<class V> struct Mode3 { static void run() { PerType<V>::run_mode(3); } };

}  // namespace vx

int main(int argc, char** argv) {
    if (int rc = vx::parse_args(argc, argv)) return rc;
    using namespace vx;
    for (int m = 0; m < 4; ++m) {
        std::fesetround(round_modes()[m].mode);
        name_suffix() = round_modes()[m].suffix;
        if (m == 0) { for_each_float_type<Mode0>(); for_each_float_scalar<Mode0>(); }
        if (m == 1) { for_each_float_type<Mode1>(); for_each_float_scalar<Mode1>(); }
        if (m == 2) { for_each_float_type<Mode2>(); for_each_float_scalar<Mode2>(); }
        if (m == 3) { for_each_float_type<Mode3>(); for_each_float_scalar<Mode3>(); }
    }
    std::fesetround(FE_TONEAREST);
    return write_results("t_fround", part_name());
}
