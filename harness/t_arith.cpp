// t_arith.cpp - C01: integer + - * unary-minus ++/-- and compound forms are lane-wise arithmetic mod 2^bits.
#include "vx_explore.hpp"

namespace vx {

template<class S> inline std::uint64_t smask() { return low_mask(8 * sizeof(S)); }

template<class S> inline bool carry_nt(S a, S b) {
    // non-trivial by the C01 rule: the exact sum leaves the element range or a carry crosses a sub-lane boundary
    std::uint64_t ua = bits_of(a), ub = bits_of(b);
    unsigned __int128 s = (unsigned __int128)ua + ub;
    if (s > smask<S>()) return true;
    for (unsigned sub = 8; sub < 8 * sizeof(S); sub *= 2)
        if (((ua & low_mask(sub)) + (ub & low_mask(sub))) >> sub) return true;
    return false;
}
template<class S> inline bool borrow_nt(S a, S b) {
    std::uint64_t ua = bits_of(a), ub = bits_of(b);
    if (ua < ub) return true;
    for (unsigned sub = 8; sub < 8 * sizeof(S); sub *= 2)
        if ((ua & low_mask(sub)) < (ub & low_mask(sub))) return true;
    return false;
}
template<class S> inline bool mul_nt(S a, S b) {
    unsigned __int128 p = (unsigned __int128)bits_of(a) * bits_of(b);
    return p > smask<S>();
}

#define VX_ARITH_OP(NAME, ARITY, EXPR, MODEL, NT)                                             \
    struct NAME : OpBase {                                                                     \
        static const int arity = ARITY;                                                        \
        static const char* name() { return #NAME; }                                            \
        template<class V> static auto apply(V a, V b, V c) VX_AUTO(EXPR)                       \
        template<class S> static std::uint64_t model(S a, S b, S) {                            \
            const std::uint64_t ua = bits_of(a), ub = bits_of(b); (void)ua; (void)ub;          \
            return (MODEL) & smask<S>();                                                       \
        }                                                                                      \
        template<class S> static bool nontrivial(S a, S b, S) { (void)a; (void)b; return NT; } \
    };

VX_ARITH_OP(add,          2, a + b,          ua + ub, carry_nt(a, b))
VX_ARITH_OP(sub,          2, a - b,          ua - ub, borrow_nt(a, b))
VX_ARITH_OP(mul,          2, a * b,          ua * ub, mul_nt(a, b))
VX_ARITH_OP(add_assign,   2, V(a += b),      ua + ub, carry_nt(a, b))
VX_ARITH_OP(sub_assign,   2, V(a -= b),      ua - ub, borrow_nt(a, b))
VX_ARITH_OP(mul_assign,   2, V(a *= b),      ua * ub, mul_nt(a, b))
VX_ARITH_OP(neg,          1, -a,             0 - ua,  (bits_of(a) == 0 || bits_of(a) == (smask<S>() >> 1) + 1 || (bits_of(a) & 0xff) == 0))
VX_ARITH_OP(unary_plus,   1, +a,             ua,      true)
VX_ARITH_OP(preinc,       1, V(++a),         ua + 1,  carry_nt(a, S(1)))
VX_ARITH_OP(predec,       1, V(--a),         ua - 1,  borrow_nt(a, S(1)))
VX_ARITH_OP(postinc_ret,  1, V(a++),         ua,      carry_nt(a, S(1)))
VX_ARITH_OP(postdec_ret,  1, V(a--),         ua,      borrow_nt(a, S(1)))
VX_ARITH_OP(postinc_val,  1, V((a++, a)),    ua + 1,  carry_nt(a, S(1)))
VX_ARITH_OP(postdec_val,  1, V((a--, a)),    ua - 1,  borrow_nt(a, S(1)))

template<class V>
inline void run_ops(const DomainS<typename V::scalar>& d2, const DomainS<typename V::scalar>& d1, const std::vector<typename V::scalar>& K) {
    explore<V, add>(d2, &K);
    explore<V, sub>(d2, &K);
    explore<V, mul>(d2, &K);
    explore<V, add_assign>(d2, &K);
    explore<V, sub_assign>(d2, &K);
    explore<V, mul_assign>(d2, &K);
    explore<V, neg>(d1, &K);
    explore<V, unary_plus>(d1, &K);
    explore<V, preinc>(d1, &K);
    explore<V, predec>(d1, &K);
    explore<V, postinc_ret>(d1, &K);
    explore<V, postdec_ret>(d1, &K);
    explore<V, postinc_val>(d1, &K);
    explore<V, postdec_val>(d1, &K);
}

template<class V, unsigned BITS = 8 * sizeof(typename V::scalar)>
struct Plan;

template<class V> struct Plan<V, 8> {
    typedef typename V::scalar S;
    static void run(const std::vector<S>& K) { run_ops<V>(erase<S>(DomFull2<S>()), erase<S>(DomFull1<S>()), K); }
};
template<class V> struct Plan<V, 16> {
    typedef typename V::scalar S;
    static void run(const std::vector<S>& K) {
        if (exh16()) run_ops<V>(erase<S>(DomFull2<S>()), erase<S>(DomFull1<S>()), K);
        else run_ops<V>(erase<S>(DomCross2<S>(as_scalars<S>(alphabet_L(16, false)), "D16 x L16 union L16 x D16")), erase<S>(DomFull1<S>()), K);
    }
};
template<class V> struct Plan<V, 32> {
    typedef typename V::scalar S;
    static void run(const std::vector<S>& K) {
        std::vector<S> L = as_scalars<S>(alphabet_L(32, true));
        DomProd2<S> d2(L, L, "L32 x L32");
        if (exh32()) run_ops<V>(erase<S>(d2), erase<S>(DomFull1<S>()), K);
        else run_ops<V>(erase<S>(d2), erase<S>(DomList1<S>(L, "L32")), K);
    }
};
template<class V> struct Plan<V, 64> {
    typedef typename V::scalar S;
    static void run(const std::vector<S>& K) {
        std::vector<S> L = as_scalars<S>(alphabet_L(64, opt().thorough));
        DomProd2<S> d2(L, L, opt().thorough ? "L64(full) x L64(full)" : "L64(small) x L64(small)");
        run_ops<V>(erase<S>(d2), erase<S>(DomList1<S>(L, "L64")), K);
    }
};

template<class V>
struct PerType {
    typedef typename V::scalar S;
    static void run() {
        std::vector<S> K = as_scalars<S>(alphabet_K(8 * sizeof(S)));
        Plan<V>::run(K);
    }
};

}  // namespace vx

int main(int argc, char** argv) {
    if (int rc = vx::parse_args(argc, argv)) return rc;
    vx::for_each_int_type<vx::PerType>();
    return vx::write_results("t_arith", vx::part_name());
}
