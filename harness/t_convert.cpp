// t_convert.cpp - C17: conversions between vector / mask types preserve every lane.
//   same-size signed <-> unsigned (and identity) conversions for every width, through convert<To>(v)[0], the converting constructor and bit_cast;
//   mask conversions preserve the truth value of every lane and yield a canonical representation;
//   width-1 cross-size conversions (the pairs scraped from the headers by the driver, passed in VX_CONVERT_PAIRS) equal static_cast.
#include "vx_explore.hpp"
#include <set>

#ifndef VX_CONVERT_PAIRS
#define VX_CONVERT_PAIRS
#endif

namespace vx {

template<class S, bool F = std::is_floating_point<S>::value> struct counterpart { typedef typename std::conditional<std::is_signed<S>::value, typename std::make_unsigned<S>::type, typename std::make_signed<S>::type>::type type; };
template<class S> struct counterpart<S, true> { typedef typename uint_of<S>::type type; };

template<class A> inline typename A::value_type first_of(const A& arr) { return arr[0]; }  // by value: convert returns a temporary array

template<class ToS, class FromS>
inline std::uint64_t cast_bits(FromS a) { return bits_of(static_cast<ToS>(a)); }

// ---- vector conversions ----------------------------------------------------------------------
template<class To> struct conv_fn : OpBase {
    static const int arity = 1;
    static const char* name() { static std::string n = "convert_to_" + vname<To>(); return n.c_str(); }
    template<class V> static auto apply(V a, V, V) VX_AUTO(first_of(avel::convert<To>(a)))
    template<class S> static std::uint64_t model(S a, S, S) { return cast_bits<typename To::scalar>(a); }
    template<class S> static bool nontrivial(S a, S, S) { return (bits_of(a) >> (8 * sizeof(S) - 1)) != 0; }
};
template<class To> struct ctor_fn : OpBase {
    static const int arity = 1;
    static const char* name() { static std::string n = "construct_" + vname<To>(); return n.c_str(); }
    template<class V> static auto apply(V a, V, V) VX_AUTO(To(a))
    template<class S> static std::uint64_t model(S a, S, S) { return cast_bits<typename To::scalar>(a); }
    template<class S> static bool nontrivial(S a, S, S) { return (bits_of(a) >> (8 * sizeof(S) - 1)) != 0; }
};
template<class To> struct bitcast_fn : OpBase {
    static const int arity = 1;
    static const char* name() { static std::string n = "bit_cast_to_" + vname<To>(); return n.c_str(); }
    template<class V> static auto apply(V a, V, V) VX_AUTO(avel::bit_cast<To>(a))
    template<class S> static std::uint64_t model(S a, S, S) { return bits_of(a); }
};

template<class S, unsigned BITS = 8 * sizeof(S)> struct ValueDom {
    static DomainOf<S, DomFull1<S> > get() { return erase<S>(DomFull1<S>()); }
};
template<class S> struct ValueDom<S, 32> {
    static DomainOf<S, DomList1<S> > get() {
        std::vector<std::uint64_t> v = alphabet_L(32, true), f = alphabet_F32L();
        v.insert(v.end(), f.begin(), f.end());
        sort_unique(v);
        return erase<S>(DomList1<S>(as_scalars<S>(v), "L32 u F32L bit patterns"));
    }
};
template<class S> struct ValueDom<S, 64> {
    static DomainOf<S, DomList1<S> > get() {
        std::vector<std::uint64_t> v = alphabet_L(64, true), f = alphabet_F64L();
        v.insert(v.end(), f.begin(), f.end());
        sort_unique(v);
        return erase<S>(DomList1<S>(as_scalars<S>(v), "L64 u F64L bit patterns"));
    }
};

template<class S> inline std::vector<S> lane_K() {
    std::vector<std::uint64_t> k = alphabet_K(8 * sizeof(S));
    return as_scalars<S>(k);
}

// ---- mask conversions ------------------------------------------------------------------------
typedef std::vector<unsigned char> Abs;
template<unsigned N> inline std::vector<Abs> mask_patterns() {
    std::vector<Abs> v;
    if (N <= 16) {
        for (unsigned long p = 0; p < (1ul << N); ++p) { Abs a(N); for (unsigned i = 0; i < N; ++i) a[i] = (p >> i) & 1; v.push_back(a); }
        return v;
    }
    std::set<std::string> seen;
    std::vector<Abs> base;
    base.push_back(Abs(N, 0));
    for (unsigned i = 0; i < N; ++i) { Abs a(N, 0); a[i] = 1; base.push_back(a); }
    for (unsigned k = 1; k < N; ++k) { Abs a(N, 0); for (unsigned i = 0; i < k; ++i) a[i] = 1; base.push_back(a); }
    for (unsigned per = 1; per < N; per *= 2) { Abs a(N, 0); for (unsigned i = 0; i < N; ++i) a[i] = (i / per) & 1; base.push_back(a); }
    for (unsigned blk = 0; blk < N / 8; ++blk) for (unsigned pat = 1; pat < 256; pat += 29) { Abs a(N, 0); for (unsigned i = 0; i < 8; ++i) a[blk * 8 + i] = (pat >> i) & 1; base.push_back(a); }
    for (std::size_t i = 0; i < base.size(); ++i) {
        Abs c = base[i];
        for (unsigned k = 0; k < N; ++k) c[k] ^= 1;
        std::string s1(base[i].begin(), base[i].end()), s2(c.begin(), c.end());
        if (seen.insert(s1).second) v.push_back(base[i]);
        if (seen.insert(s2).second) v.push_back(c);
    }
    return v;
}

template<class MTo, class MFrom>
struct MaskConv {
    static const unsigned N = MFrom::width;
    static void check(Stat& st, const Abs& a, const MTo& r, unsigned salt) {
        std::uint8_t dec[N];
        mask_lanes(r, dec);
        bool good = true;
        for (unsigned i = 0; i < N; ++i) good = good && dec[i] == a[i];
        ++st.evals; ++st.distinct;
        unsigned pop = 0; for (unsigned i = 0; i < N; ++i) pop += a[i];
        if (pop != 0 && pop != N) ++st.nontrivial;
        if (!good) {
            ++st.fails;
            std::uint64_t h = salt;
            for (unsigned i = 0; i < N; ++i) h = hcomb(h, a[i]);
            st.fp += h;
            std::string s; for (unsigned i = 0; i < N; ++i) s.push_back(a[i] ? '1' : '0');
            std::string g; for (unsigned i = 0; i < N; ++i) g.push_back(dec[i] == 2 ? '?' : (dec[i] ? '1' : '0'));
            if (st.witnesses.size() < 4) add_witness(st, "{\"mask\":" + jstr(s) + ",\"got\":" + jstr(g) + ",\"args\":[]}");
        }
    }
    static void run(const std::string& from, const std::string& to) {
        if (!opt().only_subject.empty() && opt().only_subject != from) return;
        Stat& s1 = new_stat(from, "convert_to_" + to, "every mask pattern of MASK(N)");
        Stat& s2 = new_stat(from, "construct_" + to, "every mask pattern of MASK(N)");
        Stat& s3 = new_stat(from, "bit_cast_to_" + to, "every mask pattern of MASK(N)");
        std::vector<Abs> pats = mask_patterns<N>();
        for (std::size_t k = 0; k < pats.size(); ++k) {
            std::uint8_t lanes[N];
            for (unsigned i = 0; i < N; ++i) lanes[i] = pats[k][i];
            MFrom m = make_mask<MFrom>(lanes);
            check(s1, pats[k], first_of(avel::convert<MTo>(m)), 1);
            check(s2, pats[k], MTo(m), 2);
            bitcast(s3, pats[k], m, std::integral_constant<bool, sizeof(MTo) == sizeof(MFrom)>());
        }
        add_sample(s1, "{\"patterns\":" + u64s(pats.size()) + "}");
        add_sample(s2, "{\"patterns\":" + u64s(pats.size()) + "}");
        add_sample(s3, "{\"patterns\":" + u64s(pats.size()) + "}");
    }
    static void bitcast(Stat& st, const Abs& a, const MFrom& m, std::true_type) { check(st, a, avel::bit_cast<MTo>(m), 3); }
    static void bitcast(Stat&, const Abs&, const MFrom&, std::false_type) {}
};

template<class V>
struct PerType {
    typedef typename V::scalar S;
    typedef typename counterpart<S>::type CS;
    typedef avel::Vector<CS, V::width> CV;
    static void run() {
        std::vector<S> K = lane_K<S>();
        ints(K, std::integral_constant<bool, std::is_integral<S>::value>());
    }
    static void ints(const std::vector<S>& K, std::true_type) {
        explore<V, conv_fn<CV> >(ValueDom<S>::get(), &K);
        explore<V, ctor_fn<CV> >(ValueDom<S>::get(), &K);
        explore<V, bitcast_fn<CV> >(ValueDom<S>::get(), &K);
        explore<V, conv_fn<V> >(ValueDom<S>::get(), &K);      // identity
        MaskConv<typename CV::mask, typename V::mask>::run("mask" + vname<V>().substr(3), "mask" + vname<CV>().substr(3));
        MaskConv<typename V::mask, typename V::mask>::run("mask" + vname<V>().substr(3), "mask" + vname<V>().substr(3));
    }
    static void ints(const std::vector<S>& K, std::false_type) {
        // floats: bit_cast to and from the integer vectors of the same shape, identity conversion, mask identity
        typedef avel::Vector<typename sint_of<S>::type, V::width> IV;
        explore<V, bitcast_fn<CV> >(ValueDom<S>::get(), &K);
        explore<V, bitcast_fn<IV> >(ValueDom<S>::get(), &K);
        explore<V, conv_fn<V> >(ValueDom<S>::get(), &K);
        MaskConv<typename V::mask, typename V::mask>::run("mask" + vname<V>().substr(3), "mask" + vname<V>().substr(3));
    }
};
#if VX_PART < 100
template<class V>
struct BackCast {  // integer -> float bit_cast
    typedef typename V::scalar S;
    typedef typename std::conditional<sizeof(S) == 4, float, double>::type FS;
    static void run() { go(std::integral_constant<bool, (sizeof(S) >= 4)>()); }
    static void go(std::true_type) {
        typedef avel::Vector<FS, V::width> FV;
        std::vector<S> K = lane_K<S>();
        explore<V, bitcast_fn<FV> >(ValueDom<S>::get(), &K);
    }
    static void go(std::false_type) {}
};
#endif

// width-1 cross-size conversions provided by the headers
template<class To, class From>
inline void run_pair(const char*, const char*) {
    typedef typename From::scalar S;
    std::vector<S> K = lane_K<S>();
    explore<From, conv_fn<To> >(ValueDom<S>::get(), &K);
    explore<From, ctor_fn<To> >(ValueDom<S>::get(), &K);
}
template<class MTo, class MFrom>
inline void run_mask_pair(const char* to, const char* from) { MaskConv<MTo, MFrom>::run(from, to); }

}  // namespace vx

int main(int argc, char** argv) {
    if (int rc = vx::parse_args(argc, argv)) return rc;
#if VX_PART < 100
    vx::for_each_int_type<vx::PerType>();
    vx::for_each_int_type<vx::BackCast>();
#else
    vx::for_each_float_type<vx::PerType>();
#endif
#define XV(TO, FROM) vx::run_pair<avel::TO, avel::FROM>(#TO, #FROM);
#define XM(TO, FROM) vx::run_mask_pair<avel::TO, avel::FROM>(#TO, #FROM);
    VX_CONVERT_PAIRS
    return vx::write_results("t_convert", vx::part_name());
}
