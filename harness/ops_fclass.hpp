// ops_fclass.hpp - operation definitions shared by t_fclass.cpp and t_scalar.cpp (C16)
#ifndef VX_OPS_FCLASS_HPP
#define VX_OPS_FCLASS_HPP
#include "vx_float.hpp"

namespace vx {
namespace ofc {


#define VX_FC1_OP(NAME, EXPR, MODEL)                                                            \
    struct NAME : OpBase {                                                                      \
        static const int arity = 1;                                                             \
        static const char* name() { return #NAME; }                                             \
        template<class V> static auto apply(V a, V, V) VX_AUTO(EXPR)                            \
        template<class S> static std::uint64_t model(S a, S, S) { return MODEL; }               \
        template<class S> static bool nontrivial(S a, S, S) { return a != a || std::isinf(a) || a == S(0) || std::fabs(a) < std::numeric_limits<S>::min() || std::signbit(a); } \
    };
VX_FC1_OP(fpclassify, avel::fpclassify(un(a)), (std::uint64_t(std::int64_t(std::fpclassify(a))) & low_mask(8 * sizeof(S))))
VX_FC1_OP(isnan, avel::isnan(un(a)), (std::isnan(a) ? 1 : 0))
VX_FC1_OP(isinf, avel::isinf(un(a)), (std::isinf(a) ? 1 : 0))
VX_FC1_OP(isfinite, avel::isfinite(un(a)), (std::isfinite(a) ? 1 : 0))
VX_FC1_OP(isnormal, avel::isnormal(un(a)), (std::isnormal(a) ? 1 : 0))
VX_FC1_OP(signbit, avel::signbit(un(a)), (std::signbit(a) ? 1 : 0))

#define VX_FC2_OP(NAME, EXPR, MODEL)                                                            \
    struct NAME : OpBase {                                                                      \
        static const int arity = 2;                                                             \
        static const char* name() { return #NAME; }                                             \
        template<class V> static auto apply(V a, V b, V) VX_AUTO(EXPR)                          \
        template<class S> static std::uint64_t model(S a, S b, S) { return (MODEL) ? 1 : 0; }   \
        template<class S> static bool nontrivial(S a, S b, S) { return a != a || b != b || a == b || a == S(0) || b == S(0) || std::signbit(a) != std::signbit(b); } \
    };
VX_FC2_OP(isgreater, avel::isgreater(un(a), un(b)), std::isgreater(a, b))
VX_FC2_OP(isgreaterequal, avel::isgreaterequal(un(a), un(b)), std::isgreaterequal(a, b))
VX_FC2_OP(isless, avel::isless(un(a), un(b)), std::isless(a, b))
VX_FC2_OP(islessequal, avel::islessequal(un(a), un(b)), std::islessequal(a, b))
VX_FC2_OP(islessgreater, avel::islessgreater(un(a), un(b)), std::islessgreater(a, b))
VX_FC2_OP(isunordered, avel::isunordered(un(a), un(b)), std::isunordered(a, b))

}  // namespace ofc
}  // namespace vx
#endif
