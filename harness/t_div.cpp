// t_div.cpp - C05: div / % are exact truncating division per lane; zero divisors elsewhere neither trap nor disturb.
#include "vx_explore.hpp"

namespace vx {

typedef __int128 i128;

template<class S> inline bool div_ok(S a, S b) {
    if (b == S(0)) return false;
    if (std::is_signed<S>::value && bits_of(b) == low_mask(nbits<S>()) && bits_of(a) == (1ull << (nbits<S>() - 1))) return false;  // MIN / -1
    return true;
}
template<class S> inline bool not_overflow(S a, S b) {
    return !(std::is_signed<S>::value && bits_of(b) == low_mask(nbits<S>()) && bits_of(a) == (1ull << (nbits<S>() - 1)));
}
template<class S> inline std::uint64_t m_quot(S a, S b) { return std::uint64_t(i128(a) / i128(b)) & low_mask(nbits<S>()); }
template<class S> inline std::uint64_t m_rem(S a, S b) { return std::uint64_t(i128(a) % i128(b)) & low_mask(nbits<S>()); }
template<class S> inline bool div_nt(S a, S b) { i128 q = i128(a) / i128(b); return q >= 2 || q <= -2; }

#define VX_DIV_OP(NAME, EXPR, MODEL)                                                            \
    struct NAME : OpBase {                                                                      \
        static const int arity = 2;                                                             \
        static const char* name() { return #NAME; }                                             \
        template<class V> static auto apply(V a, V b, V) VX_AUTO(EXPR)                          \
        template<class S> static std::uint64_t model(S a, S b, S) { return MODEL; }             \
        template<class S> static bool in_domain(S a, S b, S) { return div_ok(a, b); }           \
        template<class S> static bool may_execute(S a, S b, S) { return not_overflow(a, b); }   \
        template<class S> static bool nontrivial(S a, S b, S) { return div_nt(a, b); }          \
    };
VX_DIV_OP(div_quot, div(a, b).quot, m_quot(a, b))
VX_DIV_OP(div_rem, div(a, b).rem, m_rem(a, b))
VX_DIV_OP(quot, a / b, m_quot(a, b))
VX_DIV_OP(rem, a % b, m_rem(a, b))
VX_DIV_OP(quot_assign, V(a /= b), m_quot(a, b))
VX_DIV_OP(rem_assign, V(a %= b), m_rem(a, b))
// quot * y + rem == x, evaluated with the library's own operators on the library's own results
VX_DIV_OP(div_identity, V(div(a, b).quot * b + div(a, b).rem), bits_of(a))

template<class V>
inline void run_ops(const DomainS<typename V::scalar>& d2, const std::vector<typename V::scalar>& Kv) {
    const std::vector<typename V::scalar>& K = Kv;
    explore<V, div_quot>(d2, &K);
    explore<V, div_rem>(d2, &K);
    explore<V, quot>(d2, &K);
    explore<V, rem>(d2, &K);
    explore<V, quot_assign>(d2, &K);
    explore<V, rem_assign>(d2, &K);
    explore<V, div_identity>(d2, &K);
}

// explicit list of pairs
template<class S>
struct DomPairs {
    std::vector<S> A, B;
    std::string nm;
    std::uint64_t size() const { return A.size(); }
    void get(std::uint64_t i, S& a, S& b, S& c) const { a = A[i]; b = B[i]; c = a; }
    std::string name() const { return nm; }
};

// { q*d + r : q, d in T, r in {0, 1, d-1} } with wrap-around arithmetic: the sharp family for reciprocal / float-division tricks
template<class S>
inline DomPairs<S> constructed(const std::vector<S>& T, const std::string& nm) {
    typedef typename uint_of<S>::type U;
    DomPairs<S> d;
    d.nm = nm;
    for (std::size_t i = 0; i < T.size(); ++i)
        for (std::size_t j = 0; j < T.size(); ++j) {
            U q = U(bits_of(T[i])), dv = U(bits_of(T[j]));
            U rs[3] = {U(0), U(1), U(dv - 1)};
            for (int k = 0; k < 3; ++k) {
                U n = U(q * dv + rs[k]);
                S sn, sd;
                std::memcpy(&sn, &n, sizeof sn);
                std::memcpy(&sd, &dv, sizeof sd);
                d.A.push_back(sn);
                d.B.push_back(sd);
            }
        }
    return d;
}

template<class V, unsigned BITS = 8 * sizeof(typename V::scalar)>
struct Plan;
template<class V> struct Plan<V, 8> {
    typedef typename V::scalar S;
    static void run(const std::vector<S>& K) { run_ops<V>(erase<S>(DomFull2<S>()), K); }
};
template<class V> struct Plan<V, 16> {
    typedef typename V::scalar S;
    static void run(const std::vector<S>& K) {
        if (exh16()) run_ops<V>(erase<S>(DomFull2<S>()), K);
        else run_ops<V>(erase<S>(DomCross2<S>(as_scalars<S>(alphabet_L(16, false)), "D16 x L16 union L16 x D16")), K);
    }
};
template<class V> struct Plan<V, 32> {
    typedef typename V::scalar S;
    static void run(const std::vector<S>& K) {
        std::vector<S> L = as_scalars<S>(alphabet_L(32, true));
        run_ops<V>(erase<S>(DomProd2<S>(L, L, "L32 x L32")), K);
        std::vector<S> T = K;
        for (std::size_t i = 0; i < L.size(); i += (opt().thorough ? 2 : 8)) T.push_back(L[i]);
        run_ops<V>(erase<S>(constructed<S>(T, "constructed {q*d+r : q,d in K32 + L32 subset, r in {0,1,d-1}}")), std::vector<S>());
    }
};
template<class V> struct Plan<V, 64> {
    typedef typename V::scalar S;
    static void run(const std::vector<S>& K) {
        std::vector<S> L = as_scalars<S>(alphabet_L(64, opt().thorough));
        run_ops<V>(erase<S>(DomProd2<S>(L, L, opt().thorough ? "L64(full) x L64(full)" : "L64(small) x L64(small)")), K);
        std::vector<S> T = K;
        for (std::size_t i = 0; i < L.size(); i += (opt().thorough ? 8 : 8)) T.push_back(L[i]);
        run_ops<V>(erase<S>(constructed<S>(T, "constructed {q*d+r : q,d in K64 + L64 subset, r in {0,1,d-1}}")), std::vector<S>());
    }
};

template<class V>
struct PerType {
    typedef typename V::scalar S;
    static void run() { Plan<V>::run(as_scalars<S>(alphabet_K(8 * sizeof(S)))); }
};

}  // namespace vx

int main(int argc, char** argv) {
    if (int rc = vx::parse_args(argc, argv)) return rc;
    vx::for_each_int_type<vx::PerType>();
    return vx::write_results("t_div", vx::part_name());
}
