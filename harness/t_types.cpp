// t_types.cpp - C19 (a)(b)(c): compiled with -fsyntax-only for every configuration. The driver passes the expected table as -DEXP_*:
//   EXP_128 / EXP_256 / EXP_512_32 / EXP_512_8 : whether 128-bit, 256-bit, 512-bit (32/64-bit lanes), 512-bit (8/16-bit lanes) vectors exist
//   EXP_W8 EXP_W16 EXP_W32 EXP_W64 : the widest provided lane count per element size (natural and maximum width)
#include <avel/Avel.hpp>
#include <avel/Aligned_allocator.hpp>
#include <type_traits>
#include <cstdint>

template<class T, unsigned N, class = void> struct vx_exists : std::false_type {};
template<class T, unsigned N> struct vx_exists<T, N, typename std::enable_if<(sizeof(avel::Vector<T, N>) > 0)>::type> : std::true_type {};
template<class T, unsigned N, class = void> struct vx_mexists : std::false_type {};
template<class T, unsigned N> struct vx_mexists<T, N, typename std::enable_if<(sizeof(avel::Vector_mask<T, N>) > 0)>::type> : std::true_type {};

template<class T, unsigned N, bool E = vx_exists<T, N>::value>
struct vx_layout { static const bool ok = true; };
template<class T, unsigned N>
struct vx_layout<T, N, true> {
    static const bool ok = sizeof(avel::Vector<T, N>) == N * sizeof(T) && std::is_trivially_copyable<avel::Vector<T, N> >::value &&
                           std::is_trivial<avel::Vector_mask<T, N> >::value && avel::Vector<T, N>::width == N &&
                           std::is_same<typename avel::Vector<T, N>::scalar, T>::value && std::is_same<typename avel::Vector<T, N>::mask, avel::Vector_mask<T, N> >::value;
};

// lanes of a 128-bit register for T
#define VX_L128(T) (16 / sizeof(T))
template<class T, unsigned N>
struct vx_expected {
    static const bool is512 = N == 4 * VX_L128(T), is256 = N == 2 * VX_L128(T), is128 = N == VX_L128(T);
    static const bool small = sizeof(T) <= 2;
    static const bool value = N == 1 || (is128 && EXP_128) || (is256 && EXP_256) || (is512 && (small ? EXP_512_8 : EXP_512_32));
};

#define VX_CHECK_N(T, N) \
    static_assert(vx_exists<T, N>::value == vx_expected<T, N>::value, "Vector<" #T "," #N "> provided / not provided contrary to the documented widths"); \
    static_assert(vx_mexists<T, N>::value == vx_expected<T, N>::value, "Vector_mask<" #T "," #N "> provided / not provided contrary to the documented widths"); \
    static_assert(vx_layout<T, N>::ok, "Vector<" #T "," #N ">: sizeof != N*sizeof(T), not trivially copyable, mask not trivial, or member aliases wrong");
#define VX_CHECK_T(T) VX_CHECK_N(T, 1) VX_CHECK_N(T, 2) VX_CHECK_N(T, 4) VX_CHECK_N(T, 8) VX_CHECK_N(T, 16) VX_CHECK_N(T, 32) VX_CHECK_N(T, 64) VX_CHECK_N(T, 128) VX_CHECK_N(T, 3)

VX_CHECK_T(std::uint8_t) VX_CHECK_T(std::int8_t) VX_CHECK_T(std::uint16_t) VX_CHECK_T(std::int16_t) VX_CHECK_T(std::uint32_t) VX_CHECK_T(std::int32_t)
VX_CHECK_T(std::uint64_t) VX_CHECK_T(std::int64_t) VX_CHECK_T(float) VX_CHECK_T(double)

// natural / maximum width aliases name complete types of the widest provided width
#define VX_ALIAS(SUF, T, W) \
    static_assert(std::is_same<avel::vecNx##SUF, avel::Vector<T, W> >::value, "vecNx" #SUF " is not the widest provided vector"); \
    static_assert(std::is_same<avel::vecMx##SUF, avel::Vector<T, W> >::value, "vecMx" #SUF " is not the widest provided vector"); \
    static_assert(std::is_same<avel::maskNx##SUF, avel::Vector_mask<T, W> >::value, "maskNx" #SUF); \
    static_assert(std::is_same<avel::maskMx##SUF, avel::Vector_mask<T, W> >::value, "maskMx" #SUF); \
    static_assert(sizeof(avel::vecNx##SUF) == W * sizeof(T) && sizeof(avel::vecMx##SUF) == W * sizeof(T), "alias names an incomplete or wrong type"); \
    static_assert(std::is_same<avel::arrNx##SUF, std::array<T, W> >::value && std::is_same<avel::arrMx##SUF, std::array<T, W> >::value, "arrNx/arrMx" #SUF);
VX_ALIAS(8u, std::uint8_t, EXP_W8) VX_ALIAS(8i, std::int8_t, EXP_W8) VX_ALIAS(16u, std::uint16_t, EXP_W16) VX_ALIAS(16i, std::int16_t, EXP_W16)
VX_ALIAS(32u, std::uint32_t, EXP_W32) VX_ALIAS(32i, std::int32_t, EXP_W32) VX_ALIAS(64u, std::uint64_t, EXP_W64) VX_ALIAS(64i, std::int64_t, EXP_W64)
VX_ALIAS(32f, float, EXP_W32) VX_ALIAS(64f, double, EXP_W64)

// the allocator header is usable
static_assert(sizeof(avel::Aligned_allocator<int, 64>) == 1, "Aligned_allocator must be stateless");
template class avel::Aligned_allocator<double, 64>;

int main() { return 0; }
