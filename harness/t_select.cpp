// t_select.cpp - C07: blend/keep/clear/set_bits, min/max/minmax/clamp, abs/neg_abs/negate, average, midpoint, copysign.

#include "ops_select.hpp"

namespace vx {
using namespace osel;

template<class V, bool FLT = std::is_floating_point<typename V::scalar>::value>
struct Ops {
    typedef typename V::scalar S;
    static void run(const DomainS<S>& d1, const DomainS<S>& d2, const DomainS<S>& d3, const std::vector<S>& K) {
        explore<V, blend>(d3, &K);
        explore<V, keep>(d3, &K);
        explore<V, clear>(d3, &K);
        explore<V, negate>(d3, &K);
        explore<V, clamp>(d3, &K);
        explore<V, blend_inserted_mask>(d2, &K);
        explore<V, keep_inserted_mask>(d2, &K);
        explore<V, clear_inserted_mask>(d2, &K);
        explore<V, negate_inserted_mask>(d2, &K);
        explore<V, min>(d2, &K);
        explore<V, max>(d2, &K);
        explore<V, minmax_lo>(d2, &K);
        explore<V, minmax_hi>(d2, &K);
        explore<V, average>(d2, &K);
        explore<V, midpoint>(d2, &K);
        explore<V, abs>(d1, &K);
        explore<V, neg_abs>(d1, &K);
        explore<V, set_bits>(d1, &K);
        explore<V, vector_from_mask>(d1, &K);
    }
};
template<class V>
struct Ops<V, true> {
    typedef typename V::scalar S;
    static void run(const DomainS<S>& d1, const DomainS<S>& d2, const DomainS<S>& d3, const std::vector<S>& K) {
        explore<V, blend>(d3, &K);
        explore<V, keep>(d3, &K);
        explore<V, clear>(d3, &K);
        explore<V, negate>(d3, &K);
        explore<V, clamp>(d3, &K);
        explore<V, blend_inserted_mask>(d2, &K);
        explore<V, keep_inserted_mask>(d2, &K);
        explore<V, clear_inserted_mask>(d2, &K);
        explore<V, negate_inserted_mask>(d2, &K);
        explore<V, min>(d2, &K);
        explore<V, max>(d2, &K);
        explore<V, minmax_lo>(d2, &K);
        explore<V, minmax_hi>(d2, &K);
        explore<V, copysign>(d2, &K);
        explore<V, abs>(d1, &K);
        explore<V, neg_abs>(d1, &K);
        explore<V, vector_from_mask>(d1, &K);
    }
};

template<class V, unsigned PART = VX_PART>
struct Plan;

template<class V> struct Plan<V, 8> {
    typedef typename V::scalar S;
    static void run() {
        Ops<V>::run(erase<S>(DomFull1<S>()), erase<S>(DomFull2<S>()), erase<S>(DomFull3<S>()), as_scalars<S>(alphabet_K(8)));
    }
};
template<class V> struct Plan<V, 16> {
    typedef typename V::scalar S;
    static void run() {
        std::vector<S> L = as_scalars<S>(alphabet_L(16, false)), K = as_scalars<S>(alphabet_K(16));
        DomProd3<S> d3(L, L, L, "L16 x L16 x L16");
        if (exh16()) Ops<V>::run(erase<S>(DomFull1<S>()), erase<S>(DomFull2<S>()), erase<S>(d3), K);
        else Ops<V>::run(erase<S>(DomFull1<S>()), erase<S>(DomCross2<S>(L, "D16 x L16 union L16 x D16")), erase<S>(d3), K);
    }
};
template<class V> struct Plan<V, 32> {
    typedef typename V::scalar S;
    static void run() {
        std::vector<S> L = as_scalars<S>(alphabet_L(32, true)), K = as_scalars<S>(alphabet_K(32)), L3 = as_scalars<S>(alphabet_L(16, false));
        // triples: the 32-bit core alphabet extended by sign-/zero-extended 16-bit lattice members
        std::vector<S> T = K;
        for (std::size_t i = 0; i < L3.size(); i += 3) T.push_back(L3[i]);
        Ops<V>::run(erase<S>(DomList1<S>(L, "L32")), erase<S>(DomProd2<S>(L, L, "L32 x L32")), erase<S>(DomProd3<S>(T, T, T, "T32^3 (K32 + every third L16 member)")), K);
    }
};
template<class V> struct Plan<V, 64> {
    typedef typename V::scalar S;
    static void run() {
        std::vector<S> L = as_scalars<S>(alphabet_L(64, opt().thorough)), K = as_scalars<S>(alphabet_K(64));
        std::vector<S> T = K;
        Ops<V>::run(erase<S>(DomList1<S>(L, "L64")), erase<S>(DomProd2<S>(L, L, opt().thorough ? "L64(full)^2" : "L64(small)^2")), erase<S>(DomProd3<S>(T, T, T, "K64^3")), K);
    }
};
template<class V> struct Plan<V, 132> {
    typedef typename V::scalar S;
    static void run() {
        std::vector<S> L = as_scalars<S>(alphabet_F32L()), K = alphabet_KF<S>();
        std::vector<S> T = K;
        for (std::size_t i = 0; i < L.size(); i += 64) T.push_back(L[i]);
        Ops<V>::run(erase<S>(DomList1<S>(L, "F32L")), erase<S>(DomProd2<S>(L, L, "F32L x F32L")), erase<S>(DomProd3<S>(T, T, T, "TF32^3 (KF + every 64th F32L member)")), K);
    }
};
template<class V> struct Plan<V, 164> {
    typedef typename V::scalar S;
    static void run() {
        std::vector<S> L = as_scalars<S>(alphabet_F64L()), K = alphabet_KF<S>();
        std::vector<S> T = K;
        for (std::size_t i = 0; i < L.size(); i += 16) T.push_back(L[i]);
        Ops<V>::run(erase<S>(DomList1<S>(as_scalars<S>(alphabet_F64S(opt().thorough)), "F64S")), erase<S>(DomProd2<S>(L, L, "F64L x F64L")), erase<S>(DomProd3<S>(T, T, T, "TF64^3 (KF + every 16th F64L member)")), K);
    }
};

template<class V>
struct PerType {
    static void run() { Plan<V>::run(); }
};

}  // namespace vx

int main(int argc, char** argv) {
    if (int rc = vx::parse_args(argc, argv)) return rc;
#if VX_PART < 100
    vx::for_each_int_type<vx::PerType>();
    vx::for_each_int_scalar<vx::PerType>();
#else
    vx::for_each_float_type<vx::PerType>();
    vx::for_each_float_scalar<vx::PerType>();
#endif
    return vx::write_results("t_select", vx::part_name());
}
