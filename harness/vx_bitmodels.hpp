// vx_bitmodels.hpp - reference models for shifts and rotations (C04), shared by t_bitwise.cpp and t_shiftc.cpp
#ifndef VX_BITMODELS_HPP
#define VX_BITMODELS_HPP
#include "vx_explore.hpp"
#include <climits>

namespace vx {


// amount s in [0, bits]
template<class S> inline std::uint64_t m_shl(S a, unsigned s) {
    const unsigned B = nbits<S>();
    if (s >= B) return 0;
    return (bits_of(a) << s) & low_mask(B);
}
template<class S> inline std::uint64_t m_shr(S a, unsigned s) {
    const unsigned B = nbits<S>();
    const std::uint64_t x = bits_of(a);
    const bool neg = std::is_signed<S>::value && ((x >> (B - 1)) & 1);
    if (s >= B) return neg ? low_mask(B) : 0;
    std::uint64_t r = x >> s;
    if (neg && s > 0) r |= low_mask(B) & ~(low_mask(B) >> s);  // replicate the sign bit
    return r;
}
// rotation by r already reduced to [0, bits)
template<class S> inline std::uint64_t m_rotl(S a, unsigned r) {
    const unsigned B = nbits<S>();
    const std::uint64_t x = bits_of(a);
    if (r == 0) return x;
    return ((x << r) | (x >> (B - r))) & low_mask(B);
}
template<class S> inline std::uint64_t m_rotr(S a, unsigned r) {
    const unsigned B = nbits<S>();
    return m_rotl<S>(a, r == 0 ? 0 : B - r);
}
// mathematical modulo of a signed 64-bit amount by a power-of-two width
inline unsigned mod_bits(long long s, unsigned B) { return unsigned(static_cast<unsigned long long>(s) & (B - 1)); }

template<class S> inline bool shift_nt(S a, unsigned s) {
    // non-trivial: amount is 0 or the full width, or bits move across an 8/16/32-bit sub-lane boundary
    const unsigned B = nbits<S>();
    if (s == 0 || s >= B) return true;
    std::uint64_t x = bits_of(a);
    for (unsigned sub = 8; sub < B; sub *= 2) {
        if (((x << s) >> sub) != ((x >> sub) << s)) return true;
        if ((x >> s) != (((x >> sub) >> s) << sub | ((x & low_mask(sub)) >> s))) return true;
    }
    return false;
}

}  // namespace vx
#endif
