#!/bin/bash
# developer tool: re-apply every seeded change in a scratch worktree and run the quick check of its property (and of the sibling check named in
# meta.json for the few seeds only a sibling reports); prints one line per seed. Usage: tools/seed_regress.sh [name...]
out=/verif/build/logs/seed_regress.txt
: > $out
names="$@"; [ -z "$names" ] && names=$(ls /verif/seeded)
for n in $names; do
  d=/verif/seeded/$n
  [ -f $d/meta.json ] || continue
  prop=$(python3 -c "import json;print(json.load(open('$d/meta.json'))['property'])")
  wt=/tmp/seedreg_$n
  git -C /repo worktree add --detach -q $wt HEAD 2>/dev/null || continue
  ( cd $wt && git apply $d/patch.diff ) || { echo "$n patch does not apply" >> $out; git -C /repo worktree remove --force $wt; continue; }
  props=$prop
  case $n in C08-c) props="C09";; C16-b) props="C16";; esac
  res=""
  for p in $props; do
    line=$(VERIF_REPO=$wt VERIF_OUT=/tmp/seedout_reg nice -n 15 python3 /verif/tools/check.py $p quick 2>&1 | grep "^\[$p quick\] jobs" | tail -1)
    res="$res $p:$(echo $line | grep -o 'violations=[0-9]*')"
  done
  echo "$n$res" >> $out
  git -C /repo worktree remove --force $wt
done
git -C /repo worktree prune
