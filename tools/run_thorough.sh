#!/bin/bash
# developer tool: run the thorough tier of the given properties one after the other, log a one-line summary each
mkdir -p /verif/build/logs
for p in "$@"; do
  s=$(date +%s)
  python3 /verif/tools/check.py $p thorough > /verif/build/logs/$p.thorough.out 2> /verif/build/logs/$p.thorough.err
  rc=$?
  e=$(date +%s)
  echo "$p rc=$rc wall=$((e-s))s $(tail -1 /verif/build/logs/$p.thorough.err | cut -c1-200)" >> /verif/build/logs/thorough_summary.txt
done
