#!/usr/bin/env python3
"""C19: explorer D. States = implication-closed sets of feature macros; oracle = compiler and linker verdict on
(a) <avel/Avel.hpp> + <avel/Aligned_allocator.hpp> + the static_assert type table (harness/t_types.cpp, -fsyntax-only), naming only the maximal macros,
(b) the same with AVEL_AUTO_DETECT and only the -m flags, (c) compilers x standards, (d) the generic API program (harness/t_api.cpp, -O0, linked)."""
import concurrent.futures as cf
import os
import time

import configs as C
import props as P


def expectations(closed):
    has128 = "SSE2" in closed
    has256 = "AVX2" in closed
    has512 = "AVX512F" in closed
    has512s = "AVX512BW" in closed
    def widest(lanes128, small):
        if (has512s if small else has512):
            return 4 * lanes128
        if has256:
            return 2 * lanes128
        if has128:
            return lanes128
        return 1
    return ["-DEXP_128=%d" % has128, "-DEXP_256=%d" % has256, "-DEXP_512_32=%d" % has512, "-DEXP_512_8=%d" % has512s,
            "-DEXP_W8=%d" % widest(16, True), "-DEXP_W16=%d" % widest(8, True), "-DEXP_W32=%d" % widest(4, False), "-DEXP_W64=%d" % widest(2, False)]


_predef_cache = {}


def compiler_enabled(cfg):
    """What the compiler itself has enabled for the -m flags of cfg (e.g. -mavx512vbmi switches on AVX-512BW in GCC and Clang, x86-64 always has SSE2):
    AVEL_AUTO_DETECT must then equal naming exactly those macros."""
    import subprocess
    key = (cfg.cxx(), tuple(cfg.mflags()))
    if key not in _predef_cache:
        out = subprocess.run([cfg.cxx(), "-dM", "-E", "-x", "c++", "/dev/null"] + cfg.mflags(), stdout=subprocess.PIPE, stderr=subprocess.DEVNULL).stdout.decode()
        got = set()
        for macro, name in (("__SSE2__", "SSE2"), ("__AVX2__", "AVX2"), ("__AVX512F__", "AVX512F"), ("__AVX512BW__", "AVX512BW")):
            if ("#define %s " % macro) in out:
                got.add(name)
        _predef_cache[key] = got
    return _predef_cache[key]


def types_flags(cfg, tier, part=None):
    closed = set(cfg.closed)
    if cfg.variant == "auto":
        closed = set(C.close(sorted(compiler_enabled(cfg))))
    return expectations(closed)


def header_sets(tier):
    if tier == "thorough":
        return [sorted(s) for s in C.all_closed_sets()] + [["PREFETCH"]]
    sets = [[m] for m in C.USER_MACROS] + [["PREFETCH"]] + [list(s) for s in C.ARM_COVER]
    sets += [[a, "AVX512VL"] for a in C.AVX512_SUB if a != "AVX512VL"] + [[a, "AVX512BW"] for a in C.AVX512_SUB if a != "AVX512BW"]
    sets += [C.SCALAR_MACROS, C.FULL, ["AVX2", "FMA"], ["AVX512VL", "AVX512BW", "AVX512DQ"]]
    return sets


def run(K, pid, tier, seed, deadline, t_start):
    Job = K.Job
    jobs = []
    info = {}
    # (a) header sweep, explicit macros (maximal macros only), GCC C++11
    sets_a = header_sets(tier)
    cfgs_a = C.uniq([C.Config(s) for s in sets_a])
    # (b) AUTO_DETECT with the same -m flags
    auto_src = cfgs_a if tier == "quick" else C.uniq([C.Config(s) for s in C.thorough_sets()] + [C.Config(s) for s in header_sets("quick")])
    cfgs_b = [C.Config(c.macros, "gcc", 11, "auto") for c in auto_src]
    # (c) compilers x standards
    rep = C.uniq([C.Config(s) for s in ([[], ["SSE2"], ["SSE4_1"], ["AVX2", "FMA"], ["AVX512F"], C.FULL] if tier == "quick" else C.thorough_sets())])
    cfgs_c = []
    for c in rep:
        for comp in ("gcc", "clang"):
            for std in (11, 14, 17, 20):
                if comp == "gcc" and std == 11:
                    continue
                cfgs_c.append(C.Config(c.macros, comp, std))
                if tier == "quick" and comp == "clang" and std in (14,):
                    cfgs_c.pop()
    cfgs_c += [C.Config(c.macros, "clang", 20, "auto") for c in rep[:6]]
    all_types = C.uniq(cfgs_a + cfgs_b + cfgs_c)
    for c in all_types:
        jobs.append(Job(pid, c, "t_types", None, [c], extra_flags=types_flags(c, tier)))
    info["header_sweep_explicit"] = len(cfgs_a)
    info["auto_detect_configs"] = len(cfgs_b)
    info["compiler_standard_configs"] = len(cfgs_c)
    # (d) generic API program: arm cover (quick) / thorough tier configurations
    api_cfgs = C.uniq([C.Config(s) for s in C.ARM_COVER] + [C.Config(C.FULL, "clang"), C.Config(["SSE2"], "clang"), C.Config(["AVX2"], "gcc", 17)]) if tier == "quick" else C.thorough_configs()
    api_jobs = []
    for c in api_cfgs:
        for part in P.TUS["t_api"]["parts"]:
            api_jobs.append(Job(pid, c, "t_api", part, [c]))
    info["api_programs"] = len(api_jobs)
    K.log("[%s %s] %d header/type-table compilations + %d API programs" % (pid, tier, len(jobs), len(api_jobs)))
    timeout = 900
    alljobs = jobs + api_jobs
    with cf.ThreadPoolExecutor(K.NCPU) as ex:
        list(ex.map(lambda j: K.build_and_run(j, tier, seed, timeout, deadline), alljobs))
    # ladder evaluator: do the configuration tiers activate every preprocessor arm that some closed set can reach?
    arms_info = {}
    try:
        import arms as A
        tree = A.parse_tree(os.path.join(C.INC, "avel"))
        reach = A.reachable(tree)
        q = A.covered(tree, C.quick_configs(scalar=True))
        t = A.covered(tree, C.thorough_configs())
        arms_info = {"arms_guarded": sum(1 for a in tree if a.avel), "arms_reachable_x86_gcc": len(reach),
                     "arms_covered_by_quick_tier": len(q & set(reach)), "arms_covered_by_thorough_tier": len(t & set(reach)),
                     "arms_not_in_quick_tier": sorted(set(reach) - q)[:50]}
    except Exception as e:  # the evaluator is an auditing aid, never a verdict
        arms_info = {"arms_error": str(e)}
    # every compiled configuration is an explored state even when it produces no per-operation statistics
    n_ok = sum(1 for j in jobs if j.build_ok)
    extra = {"programs": len(alljobs), "configurations_compiled": len(jobs), "configurations_ok": n_ok, "closed_sets_total": len(C.all_closed_sets()),
             "c19": info, "states_override": len(alljobs), "ladder_arms": arms_info}
    return K.finish(pid, tier, seed, alljobs, [{"tu": "t_types", "configs": len(jobs)}, {"tu": "t_api", "configs": len(api_cfgs)}], t_start, deadline, extra_cov=extra)
