#!/usr/bin/env python3
"""Turn the replay clusters of the last run of a property into a known-finding entry skeleton:
   tools/propose.py C07 quick <op-regex> [subject-regex]  -> prints cases JSON (to be reviewed and given a `when` guard)"""
import glob, json, re, sys
pid, tier, opre = sys.argv[1], sys.argv[2], sys.argv[3]
sre = sys.argv[4] if len(sys.argv) > 4 else '.*'
cases = []
for f in sorted(glob.glob('/verif/replays/%s_%s_*.json' % (pid, tier))):
    r = json.load(open(f))
    if not re.fullmatch(opre, r['op']) or not re.fullmatch(sre, r['subject']):
        continue
    cases.append({"subject": r['subject'], "op": r['op'], "tier": tier, "kind": r['kind'], "count": r['count'], "fp": r['fp'],
                  "_configs": r['configs_failing']})
print(json.dumps(cases, indent=1))
