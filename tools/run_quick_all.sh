#!/bin/bash
# developer tool: run every quick check once, one line per property
mkdir -p /verif/build/logs
: > /verif/build/logs/quick_summary.txt
for p in C01 C02 C03 C04 C05 C06 C07 C08 C09 C10 C11 C12 C13 C14 C15 C16 C17 C18 C19 C20; do
  s=$(date +%s)
  python3 /verif/tools/check.py $p quick > /verif/build/logs/$p.quick.out 2> /verif/build/logs/$p.quick.err; rc=$?
  e=$(date +%s)
  echo "$p rc=$rc wall=$((e-s))s viol=$(grep -c '^VIOLATION' /verif/build/logs/$p.quick.out) known=$(grep -c '^KNOWN-FINDING' /verif/build/logs/$p.quick.out) $(tail -1 /verif/build/logs/$p.quick.err | cut -c1-110)" >> /verif/build/logs/quick_summary.txt
done
