#!/bin/bash
# developer tool: import a seeded change from a scratch worktree: tools/seed_import.sh <worktree> <name>
set -e
wt=$1; name=$2; d=/verif/seeded/$name
mkdir -p $d
git -C $wt diff -- include > $d/patch.diff
cp $wt/demo.cpp $d/demo.cpp
cp $wt/demo_cmd.txt $d/demo_cmd.txt
cp $wt/notes.md $d/notes.md 2>/dev/null || true
wc -l $d/patch.diff
