#!/usr/bin/env python3
"""known_findings.json: loading, `when` guard evaluation, attribution of failures (DESIGN.md section 7).
The file is never written at run time."""
import json
import os
import re

_TOK = re.compile(r"\s*(&&|\|\||!|\(|\)|[A-Za-z_][A-Za-z0-9_]*)")


def eval_when(expr, cfg):
    """Boolean expression over AVEL macro names (without AVEL_ prefix; closure applied), plus
    gcc, clang, cxx11, cxx14, cxx17, cxx20, auto, ubsan."""
    if not expr or expr.strip() in ("", "true", "always"):
        return True
    names = set(cfg.closed)
    names.add(cfg.compiler)
    names.add("cxx%d" % cfg.std)
    if cfg.variant:
        names.add(cfg.variant)
    out = []
    pos = 0
    while pos < len(expr):
        m = _TOK.match(expr, pos)
        if not m:
            if expr[pos:].strip() == "":
                break
            raise ValueError("bad when expression: %r at %d" % (expr, pos))
        t = m.group(1)
        pos = m.end()
        if t == "&&":
            out.append(" and ")
        elif t == "||":
            out.append(" or ")
        elif t == "!":
            out.append(" not ")
        elif t in "()":
            out.append(t)
        else:
            out.append("True" if t in names else "False")
    return bool(eval("".join(out), {"__builtins__": {}}, {}))


def load(path):
    if not os.path.exists(path):
        return {"findings": [], "fixed": []}
    j = json.load(open(path))
    j.setdefault("findings", [])
    j.setdefault("fixed", [])
    return j


def match(kf, prop, cfg, subject, op, tier, count, fp, kind):
    """Return the entry a failing (configuration, subject, operation) case is attributed to, or None.
    An entry lists `cases`: {subject, op, tier, count, fp} (fp/count may be "any" where DESIGN says so)."""
    for ent in kf["findings"]:
        if ent["property"] != prop:
            continue
        if not eval_when(ent.get("when", ""), cfg):
            continue
        for c in ent.get("cases", []):
            if c["subject"] != subject or c["op"] != op:
                continue
            if c.get("tier", tier) != tier and c.get("tier") != "any":
                continue
            if c.get("kind", kind) != kind:
                continue
            if c.get("fp") == "any" or (c.get("count") == count and c.get("fp") == fp):
                return ent
    return None
