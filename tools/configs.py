#!/usr/bin/env python3
"""Configuration space of AVEL: the implication-closed lattice of feature macros,
compiler flags per set, the quick/thorough configuration tiers, and equivalence
classes of configurations by preprocessed AVEL text (DESIGN.md section 3)."""
import hashlib
import itertools
import os
import re
import subprocess
import sys

REPO = os.environ.get("VERIF_REPO", "/repo")
INC = os.path.join(REPO, "include")

# user-nameable x86 macros (without the AVEL_ prefix) and the compiler flag that
# makes Verify_capabilities.hpp accept each
FLAG = {
    "X86": None, "POPCNT": "-mpopcnt", "LZCNT": "-mlzcnt", "BMI": "-mbmi", "BMI2": "-mbmi2",
    "SSE": "-msse", "SSE2": "-msse2", "SSE3": "-msse3", "SSSE3": "-mssse3", "SSE4_1": "-msse4.1",
    "SSE4_2": "-msse4.2", "AVX": "-mavx", "AVX2": "-mavx2", "FMA": "-mfma",
    "AVX512F": "-mavx512f", "AVX512VL": "-mavx512vl", "AVX512BW": "-mavx512bw",
    "AVX512DQ": "-mavx512dq", "AVX512CD": "-mavx512cd", "AVX512VPOPCNTDQ": "-mavx512vpopcntdq",
    "AVX512BITALG": "-mavx512bitalg", "AVX512VBMI": "-mavx512vbmi", "AVX512VBMI2": "-mavx512vbmi2",
    "GFNI": "-mgfni", "PREFETCH": None,
}
USER_MACROS = ["X86", "POPCNT", "LZCNT", "BMI", "BMI2", "SSE2", "SSE3", "SSSE3", "SSE4_1", "SSE4_2",
               "AVX", "AVX2", "FMA", "AVX512F", "AVX512VL", "AVX512BW", "AVX512DQ", "AVX512CD",
               "AVX512VPOPCNTDQ", "AVX512BITALG", "AVX512VBMI", "AVX512VBMI2", "GFNI"]
SCALAR_MACROS = ["X86", "POPCNT", "LZCNT", "BMI", "BMI2"]
AVX512_SUB = ["AVX512VL", "AVX512BW", "AVX512DQ", "AVX512CD", "AVX512VPOPCNTDQ", "AVX512BITALG",
              "AVX512VBMI", "AVX512VBMI2", "GFNI"]
CHAIN = ["SSE2", "SSE3", "SSSE3", "SSE4_1", "SSE4_2", "AVX", "AVX2", "AVX512F"]

_impl_cache = None


def implications():
    """Parse `#if defined(AVEL_A)` ... `#define AVEL_B` blocks out of Capabilities.hpp (x86 part)."""
    global _impl_cache
    if _impl_cache is not None:
        return _impl_cache
    txt = open(os.path.join(INC, "avel/impl/Capabilities.hpp")).read()
    start = txt.index("// x86 macros")
    end = txt.index("// ARM macros")
    imp = {}
    cur = None
    for line in txt[start:end].splitlines():
        s = line.strip()
        m = re.match(r"#if defined\(AVEL_(\w+)\)$", s)
        if m:
            cur = m.group(1)
            continue
        m = re.match(r"#define AVEL_(\w+)$", s)
        if m and cur:
            imp.setdefault(cur, set()).add(m.group(1))
        if s.startswith("#endif"):
            cur = None
    _impl_cache = imp
    return imp


def close(macros):
    imp = implications()
    out = set(macros)
    work = list(macros)
    while work:
        m = work.pop()
        for n in imp.get(m, ()):
            if n not in out:
                out.add(n)
                work.append(n)
    return frozenset(out)


def maximal(closed):
    """The macros of a closed set not implied by another member (what the user has to name)."""
    closed = set(closed)
    res = []
    for m in closed:
        if m not in USER_MACROS:
            continue
        if not any(m in close([o]) for o in closed if o != m):
            res.append(m)
    return sorted(res, key=lambda x: USER_MACROS.index(x))


def all_closed_sets():
    """All distinct closures of subsets of USER_MACROS. Computed by fixpoint over single additions."""
    seen = {frozenset()}
    frontier = [frozenset()]
    while frontier:
        nxt = []
        for s in frontier:
            for m in USER_MACROS:
                if m in s:
                    continue
                c = close(s | {m})
                if c not in seen:
                    seen.add(c)
                    nxt.append(c)
        frontier = nxt
    return sorted(seen, key=lambda s: (len(s), sorted(s)))


class Config(object):
    __slots__ = ("macros", "closed", "compiler", "std", "variant")

    def __init__(self, macros=(), compiler="gcc", std=11, variant=""):
        self.macros = tuple(maximal(close(macros)))
        self.closed = close(macros)
        self.compiler = compiler
        self.std = int(std)
        self.variant = variant  # "", "auto" (AVEL_AUTO_DETECT), "ubsan"

    @property
    def name(self):
        n = "+".join(self.macros) if self.macros else "none"
        n = n.replace("AVX512", "")
        if self.closed == close(FULL):
            n = "FULL"
        s = "%s@%s%d" % (n, self.compiler, self.std)
        if self.variant:
            s += "~" + self.variant
        return s

    def mflags(self):
        fl = []
        for m in sorted(self.closed, key=lambda x: list(FLAG).index(x) if x in FLAG else 99):
            f = FLAG.get(m)
            if f and f not in fl:
                fl.append(f)
        return fl

    def defines(self):
        if self.variant == "auto":
            return ["-DAVEL_AUTO_DETECT"]
        return ["-DAVEL_" + m for m in self.macros]

    def cxx(self):
        return "g++" if self.compiler == "gcc" else "clang++"

    def base_flags(self):
        fl = ["-std=c++%d" % self.std]
        if self.compiler == "gcc":
            fl.append("-frounding-math")
        if self.variant == "ubsan":
            # undefined behaviour in the width-1 vectors / scalar functions traps (SIGILL) and is attributed to the operation by the signal guard
            fl += ["-fsanitize=undefined", "-fsanitize-undefined-trap-on-error", "-fno-sanitize=alignment"]
        return fl + self.mflags() + self.defines()

    def has(self, m):
        return m in self.closed

    def key(self):
        return (self.macros, self.compiler, self.std, self.variant)

    def __hash__(self):
        return hash(self.key())

    def __eq__(self, o):
        return self.key() == o.key()

    def __repr__(self):
        return "Config(%s)" % self.name

    def to_json(self):
        return {"macros": list(self.macros), "compiler": self.compiler, "std": self.std,
                "variant": self.variant, "name": self.name}

    @staticmethod
    def from_json(j):
        return Config(j["macros"], j["compiler"], j["std"], j.get("variant", ""))


FULL = ["AVX512VL", "AVX512BW", "AVX512DQ", "AVX512CD", "AVX512VPOPCNTDQ", "AVX512BITALG",
        "AVX512VBMI", "AVX512VBMI2", "GFNI", "BMI2", "BMI", "LZCNT"]

# the 10-member arm cover measured in DESIGN 3.2 (recomputed by tools/arms.py; kept here as the
# seed of the quick tier; arms.py --check verifies it still covers every reachable arm)
ARM_COVER = [
    [], ["SSE2"], ["SSSE3", "POPCNT"], ["SSE4_1"], ["AVX2", "FMA"], ["AVX512F", "AVX512DQ"],
    ["AVX512BW", "AVX512VL"], ["AVX512BW", "AVX512VBMI2"],
    ["AVX512VL", "AVX512CD", "AVX512BITALG", "AVX512VBMI2"], FULL,
]


def uniq(cfgs):
    seen = set()
    out = []
    for c in cfgs:
        if c not in seen:
            seen.add(c)
            out.append(c)
    return out


def quick_sets(scalar=False):
    sets = [list(s) for s in ARM_COVER] + [["AVX2", "FMA"], ["SSE4_2"], ["AVX512F"],
                                            ["AVX512VL", "AVX512BW", "AVX512DQ"]]
    if scalar:
        sets += [[m] for m in SCALAR_MACROS] + [SCALAR_MACROS]
    return sets


def quick_configs(scalar=False, clang=True, stds=True):
    cfgs = [Config(s) for s in quick_sets(scalar)]
    if clang:
        # every arm-cover set again with Clang: an arm may depend on the compiler as well as on the feature macros (seed C01-d: a fallback guarded by
        # the raw __GNUC__ version, which Clang reports as 4)
        cfgs += [Config(s, "clang") for s in ARM_COVER]
    if stds:
        cfgs += [Config([], "gcc", 17), Config([], "gcc", 20), Config(["SSE2"], "gcc", 20), Config(FULL, "gcc", 20)]
    return uniq(cfgs)


def thorough_sets():
    sets = quick_sets(True)
    sets += [[m] for m in USER_MACROS]
    for i in range(len(CHAIN)):
        sets.append([CHAIN[i]])
    for sub in AVX512_SUB:
        sets += [[sub], [sub, "AVX512VL"], [sub, "AVX512BW"], [sub, "AVX512VL", "AVX512BW"]]
    sets.append(FULL)
    more = []
    for s in sets:
        more.append(list(s) + SCALAR_MACROS)
    return sets + more


def thorough_configs():
    cfgs = [Config(s) for s in thorough_sets()]
    cfgs += [Config(s, "clang") for s in ARM_COVER]
    for std in (14, 17, 20):
        cfgs += [Config([], "gcc", std), Config(["SSE2"], "gcc", std), Config(FULL, "gcc", std)]
    cfgs += [Config([], "clang", 20), Config(FULL, "clang", 20)]
    return uniq(cfgs)


# ---------------------------------------------------------------------------------------------
# equivalence classes by preprocessed text

_COMMON_FILES = ["Vectors.hpp", "Vectors_common.hpp", "Sizes.hpp", "Constants.hpp", "Misc.hpp",
                 "Traits.hpp", "Scalars.hpp", "Scalar.hpp", "Vector.hpp", "Capabilities.hpp",
                 "Cache.hpp", "Aligned_allocator.hpp", "Denominators.hpp", "Denominator_vectors.hpp",
                 "Scalar_denominator.hpp", "Vector_denominator.hpp", "Avel.hpp",
                 "Verify_capabilities.hpp", "Detect_capabilities.hpp"]

_LINE = re.compile(r'^# (\d+) "([^"]*)"')


def preprocess_hashes(cfg, extra_flags=()):
    """Run the preprocessor on <avel/Avel.hpp>+<avel/Aligned_allocator.hpp> and return
    {avel file basename: sha1 of its preprocessed text}. Returns None when preprocessing fails
    (e.g. a static_assert is not a preprocessing failure, an #error is)."""
    src = "#include <avel/Avel.hpp>\n#include <avel/Aligned_allocator.hpp>\n"
    cmd = [cfg.cxx(), "-E", "-x", "c++", "-", "-I", INC] + cfg.base_flags() + list(extra_flags)
    p = subprocess.run(cmd, input=src.encode(), stdout=subprocess.PIPE, stderr=subprocess.PIPE)
    if p.returncode != 0:
        return None
    per = {}
    cur = None
    for line in p.stdout.decode("utf-8", "replace").splitlines():
        m = _LINE.match(line)
        if m:
            f = m.group(2)
            cur = os.path.basename(f) if "/avel/" in f else None
            continue
        if cur is None:
            continue
        s = line.strip()
        if not s:
            continue
        per.setdefault(cur, hashlib.sha1()).update((s + "\n").encode())
    return dict((k, v.hexdigest()) for k, v in per.items())


_mention_cache = {}


def _file_mentions():
    """For every header under impl/vectors and impl/denominator_vectors: which other type headers
    its text names (vecNxM?, maskNxM?, DenominatorNxM?, Vector<..>)."""
    if _mention_cache:
        return _mention_cache
    pat = re.compile(r"\b(?:vec|mask|arr|Denom|Denominator)(\d+)x(\d+)([uif])\b")
    for sub in ("impl/vectors", "impl/denominator_vectors"):
        d = os.path.join(INC, "avel", sub)
        for fn in sorted(os.listdir(d)):
            txt = open(os.path.join(d, fn)).read()
            ment = set()
            for m in pat.finditer(txt):
                ment.add("Vec%sx%s%s.hpp" % m.groups())
            if fn.startswith("Denominator") and fn[11].isdigit():
                ment.add("Vec" + fn[len("Denominator"):])
                # a vector denominator also uses the scalar denominator of its element type
            _mention_cache[fn] = ment
    return _mention_cache


def dependency_closure(subject_files):
    ment = _file_mentions()
    out = set()
    work = list(subject_files)
    while work:
        f = work.pop()
        if f in out:
            continue
        out.add(f)
        for g in ment.get(f, ()):
            if g not in out:
                work.append(g)
    # all scalar and scalar-denominator headers are always part of the closure
    for sub in ("impl/scalars", "impl/denominators"):
        out.update(os.listdir(os.path.join(INC, "avel", sub)))
    out.update(_COMMON_FILES)
    return out


FAMILY_FILES = {}


def family_subjects(part):
    """part: '8','16','32','64' (integers), 'f32', 'f64', 'all'."""
    if part in FAMILY_FILES:
        return FAMILY_FILES[part]
    vec = sorted(os.listdir(os.path.join(INC, "avel/impl/vectors")))
    den = sorted(os.listdir(os.path.join(INC, "avel/impl/denominator_vectors")))
    if part == "scalar":
        files = []  # only the scalar and scalar-denominator headers (always in the closure) and the common files
    elif part == "all":
        files = [f for f in vec + den]
    elif part in ("f32", "f64"):
        b = part[1:]
        files = [f for f in vec if re.match(r"Vec\d+x%sf\.hpp" % b, f)]
    else:
        files = [f for f in vec if re.match(r"Vec\d+x%s[ui]\.hpp" % part, f)]
        files += [f for f in den if re.match(r"Denominator\d+x%s[ui]\.hpp" % part, f)]
    FAMILY_FILES[part] = files
    return files


def class_key(hashes, part):
    if hashes is None:
        return None
    clo = dependency_closure(family_subjects(part))
    h = hashlib.sha1()
    for f in sorted(clo):
        h.update(("%s=%s;" % (f, hashes.get(f, "-"))).encode())
    return h.hexdigest()[:16]


if __name__ == "__main__":
    if len(sys.argv) > 1 and sys.argv[1] == "count":
        s = all_closed_sets()
        print(len(s))
    elif len(sys.argv) > 1 and sys.argv[1] == "tiers":
        q = quick_configs(True)
        t = thorough_configs()
        print("quick", len(q))
        for c in q:
            print("  ", c.name, " ".join(c.base_flags()))
        print("thorough", len(t))
