#!/usr/bin/env python3
"""Summarise replay clusters of the last run of a property: ./tools/summ.py C07 quick"""
import glob, json, sys, collections
pid, tier = sys.argv[1], sys.argv[2]
by = collections.OrderedDict()
for f in sorted(glob.glob('/verif/replays/%s_%s_*.json' % (pid, tier))):
    r = json.load(open(f))
    k = (r['property'], r['op'])
    by.setdefault(k, []).append(r)
for (prop, op), rs in by.items():
    print("== %s %s: %d clusters" % (prop, op, len(rs)))
    for r in rs[: int(sys.argv[3]) if len(sys.argv) > 3 else 6]:
        w = dict(r['witness']) if isinstance(r['witness'], dict) else {}
        w.pop('args', None); w.pop('phase', None)
        cf = r['configs_failing']
        print("   %-10s n=%-9d cfgs=%d[%s] %s" % (r['subject'], r['count'], len(cf), ",".join(c.split('@')[0] + ('' if c.endswith('gcc11') else '@'+c.split('@')[1]) for c in cf[:4]), json.dumps(w)[:170]))
