#!/usr/bin/env python3
"""Ladder evaluator (DESIGN 3.2): parses every #if/#ifdef/#elif/#else/#endif of include/avel, evaluates the AVEL_* conditions under a closed
macro set and answers which preprocessor arms are active. Used to check that the configuration tiers activate every reachable arm.

  tools/arms.py report          reachable arms over all 4217 closed sets, arms covered by the quick / thorough tiers, uncovered arms
  tools/arms.py cover           greedy set cover of the reachable arms (what configs.ARM_COVER should contain)
"""
import os
import re
import sys

HERE = os.path.dirname(os.path.abspath(__file__))
sys.path.insert(0, HERE)
import configs as C  # noqa: E402

_TOK = re.compile(r"\s*(defined\s*\(\s*\w+\s*\)|defined\s+\w+|&&|\|\||!=|==|>=|<=|!|\(|\)|<|>|\w+)")


def compile_cond(expr):
    """-> python source of a function of (S, extra) where S is the set of defined AVEL names (with AVEL_ prefix)"""
    out = []
    pos = 0
    expr = expr.split("//")[0].strip()
    while pos < len(expr):
        m = _TOK.match(expr, pos)
        if not m:
            if expr[pos:].strip() == "":
                break
            return None
        t = m.group(1)
        pos = m.end()
        dm = re.match(r"defined\s*\(?\s*(\w+)\s*\)?", t)
        if dm:
            out.append("(%r in S)" % dm.group(1))
        elif t == "&&":
            out.append(" and ")
        elif t == "||":
            out.append(" or ")
        elif t == "!":
            out.append(" not ")
        elif t in ("(", ")", "<", ">", ">=", "<=", "==", "!="):
            out.append(t)
        elif re.fullmatch(r"\d+[uUlL]*", t):
            out.append(re.sub(r"[uUlL]+$", "", t))
        elif t == "__cplusplus":
            out.append("CPP")
        else:
            out.append("(V.get(%r, 0))" % t)
    try:
        return compile("(" + "".join(out) + ")", "<cond>", "eval")
    except SyntaxError:
        return None


class Arm(object):
    __slots__ = ("file", "line", "cond_src", "code", "parent", "prev", "is_else", "avel")


def parse_tree(root):
    arms = []
    for dirpath, dirs, files in os.walk(root):
        dirs.sort()
        for fn in sorted(files):
            if not fn.endswith(".hpp"):
                continue
            path = os.path.join(dirpath, fn)
            rel = os.path.relpath(path, root)
            stack = []  # list of [current_arm, list_of_previous_arms_in_group]
            lines = open(path, errors="replace").read().split("\n")
            i = 0
            while i < len(lines):
                line = lines[i]
                ln = i + 1
                while line.rstrip().endswith("\\") and i + 1 < len(lines):
                    i += 1
                    line = line.rstrip()[:-1] + " " + lines[i]
                s = line.strip()
                i += 1
                m = re.match(r"#\s*(if|ifdef|ifndef|elif|else|endif)\b(.*)", s)
                if not m:
                    continue
                kind, rest = m.group(1), m.group(2).strip()
                parent = stack[-1][0] if stack else None
                if kind in ("if", "ifdef", "ifndef"):
                    a = Arm()
                    a.file, a.line, a.parent, a.prev, a.is_else = rel, ln, parent, [], False
                    a.cond_src = rest if kind == "if" else ("defined(%s)" % rest.split()[0] if kind == "ifdef" else "!defined(%s)" % rest.split()[0])
                    a.code = compile_cond(a.cond_src)
                    a.avel = "AVEL_" in a.cond_src
                    arms.append(a)
                    stack.append([a, [a]])
                elif kind in ("elif", "else") and stack:
                    group = stack[-1][1]
                    a = Arm()
                    a.file, a.line, a.parent, a.prev, a.is_else = rel, ln, group[0].parent, list(group), kind == "else"
                    a.cond_src = rest if kind == "elif" else "1"
                    a.code = compile_cond(a.cond_src)
                    a.avel = any("AVEL_" in g.cond_src for g in group) or "AVEL_" in a.cond_src
                    arms.append(a)
                    group.append(a)
                    stack[-1][0] = a
                elif kind == "endif" and stack:
                    stack.pop()
    return arms


def active_arms(arms, closed, compiler="gcc", std=11):
    S = set("AVEL_" + m for m in closed)
    S.add("AVEL_GCC" if compiler == "gcc" else "AVEL_CLANG")
    V = {"__GNUC__": 12, "__clang__": 1 if compiler == "clang" else 0}
    env = {"S": S, "V": V, "CPP": {11: 201103, 14: 201402, 17: 201703, 20: 202002}[std]}
    act = {}
    res = []
    for a in arms:
        own = False
        if a.code is not None:
            try:
                own = bool(eval(a.code, {"__builtins__": {}}, env))
            except Exception:
                own = False
        on = own and (a.parent is None or act.get(id(a.parent), False)) and not any(act.get(id(p), False) or _own(p, env) for p in a.prev if p is not a)
        act[id(a)] = on
        if on:
            res.append(a)
    return res


def _own(a, env):
    if a.code is None:
        return False
    try:
        return bool(eval(a.code, {"__builtins__": {}}, env))
    except Exception:
        return False


def arm_key(a):
    return "%s:%d" % (a.file, a.line)


def reachable(arms):
    """arms (guarded by AVEL_* conditions) active under at least one closed x86 set, GCC, C++11..20"""
    reach = {}
    sets = C.all_closed_sets()
    for s in sets:
        for a in active_arms(arms, s):
            if a.avel:
                reach.setdefault(arm_key(a), s)
    return reach


def covered(arms, cfgs):
    cov = set()
    for c in cfgs:
        for a in active_arms(arms, c.closed, c.compiler, c.std):
            if a.avel:
                cov.add(arm_key(a))
    return cov


def main(argv):
    arms = parse_tree(os.path.join(C.INC, "avel"))
    avel = [a for a in arms if a.avel]
    if argv and argv[0] == "cover":
        sets = C.all_closed_sets()
        per = []
        for s in sets:
            per.append((s, set(arm_key(a) for a in active_arms(arms, s) if a.avel)))
        need = set()
        for _, k in per:
            need |= k
        chosen = []
        while need:
            best = max(per, key=lambda x: (len(x[1] & need), -len(x[0])))
            if not (best[1] & need):
                break
            chosen.append(best[0])
            need -= best[1]
        for s in chosen:
            print(C.maximal(s))
        return 0
    reach = reachable(arms)
    q = covered(arms, C.quick_configs(scalar=True))
    t = covered(arms, C.thorough_configs())
    print("arms guarded by AVEL_* conditions: %d; reachable on x86 with GCC: %d" % (len(avel), len(reach)))
    print("covered by the quick tier (scalar variant): %d; by the thorough tier: %d" % (len(q & set(reach)), len(t & set(reach))))
    missing = sorted(set(reach) - q)
    for k in missing[:40]:
        print("  not in quick: %s  e.g. %s" % (k, C.maximal(reach[k])))
    missing_t = sorted(set(reach) - t)
    for k in missing_t[:20]:
        print("  not in thorough: %s  e.g. %s" % (k, C.maximal(reach[k])))
    return 0


if __name__ == "__main__":
    sys.exit(main(sys.argv[1:]))
