#!/usr/bin/env python3
"""Regenerate MANIFEST.json from tools/props.py (claimed checks) and properties.jsonl (everything else -> not_applicable)."""
import json, os, sys
HERE = os.path.dirname(os.path.abspath(__file__))
sys.path.insert(0, HERE)
import props as P
VERIF = os.path.dirname(HERE)
ids = [json.loads(l)['id'] for l in open(os.path.join(VERIF, 'properties.jsonl'))]
m = {
    "version": 1,
    "setup_cmd": "mkdir -p build/bin replays evidence && python3 tools/check.py --selftest",
    "hooks": {
        "guard": "AVEL_VERIF",
        "enable": "no source hooks are needed: every observation point is public API, memory, signals or the build result; checks compile /repo/include as it is",
        "baseline_off_cmd": "cmake --build /repo/_build && /repo/_build/tests/AVEL_TESTS --gtest_brief=1",
        "source_commits": [],
        "add_only": True,
    },
    "engines": [{"name": "vx", "path": "harness/ + tools/check.py", "serves_properties": sorted(P.PROPS),
                 "kind_free_text": "bounded exhaustive exploration of the real headers: enumerated operand tuples / representation states / environment answers x configuration classes, compared with reference models"}],
    "checks": [],
    "not_applicable": [],
    "notes": "exit 0 held / 1 VIOLATION / 2 framework error; KNOWN-FINDING lines come from known_findings.json (never written at run time). See DESIGN.md.",
}
for pid in ids:
    if pid in P.PROPS:
        sp = P.PROPS[pid]
        m["checks"].append({
            "property_id": pid,
            "quick_cmd": "./check %s quick" % pid,
            "thorough_cmd": "./check %s thorough" % pid,
            "evidence_file": "evidence/%s.json" % pid,
            "replay_cmd_template": "./check --replay {path}",
            "engine": "vx",
            "level_claimed": {"category": "model_checking", "text": sp.get("level_text", sp.get("explanation", "")), "design_ref": "DESIGN.md section 6, " + pid},
            "level_note": sp.get("level_note", "bounded: declared alphabets for 32/64-bit operands and doubles; assumes compiler correctness at -O2 and the class merge of DESIGN 3.3; x86 arms only"),
            "technique": sp.get("technique", "exhaustive enumeration of operand tuples and lane placements on the real code per configuration class, against a reference model"),
        })
    else:
        m["not_applicable"].append({"property_id": pid, "reason": P.PENDING.get(pid, "check not yet built (work in progress; DESIGN.md section 6 describes the planned explorer)")})
json.dump(m, open(os.path.join(VERIF, 'MANIFEST.json'), 'w'), indent=1)
print("checks:", [c['property_id'] for c in m['checks']])
