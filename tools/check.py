#!/usr/bin/env python3
"""Driver: ./check <property> quick|thorough   |   ./check --replay <file>

Builds the harness TUs of a property from /repo's working tree for every configuration class of
the tier, runs them, matches failures against known_findings.json, writes evidence/<id>.json and
replay files, prints VIOLATION / KNOWN-FINDING lines. Exit 0 held, 1 violation, 2 framework error."""
import concurrent.futures as cf
import hashlib
import json
import os
import re
import shutil
import subprocess
import sys
import time

HERE = os.path.dirname(os.path.abspath(__file__))
VERIF = os.path.dirname(HERE)
sys.path.insert(0, HERE)
import configs as C  # noqa: E402
import findings as F  # noqa: E402
import props as P  # noqa: E402

REPO = C.REPO
INC = C.INC
BUILD = os.path.join(VERIF, "build")
# developer switch for trying the checks on a scratch tree (VERIF_REPO) without touching the committed evidence: VERIF_OUT=<dir>
OUT = os.environ.get("VERIF_OUT", VERIF)
HARNESS = os.path.join(VERIF, "harness")
NCPU = int(os.environ.get("VERIF_JOBS", "16"))


def log(*a):
    print(*a, file=sys.stderr, flush=True)


# ---------------------------------------------------------------------------------------------
# hashing of the inputs of a build

_tree_hash = None


def include_tree_hash():
    global _tree_hash
    if _tree_hash is None:
        h = hashlib.sha256()
        for root, dirs, files in os.walk(INC):
            dirs.sort()
            for f in sorted(files):
                p = os.path.join(root, f)
                h.update(os.path.relpath(p, INC).encode())
                h.update(b"\0")
                with open(p, "rb") as fh:
                    h.update(fh.read())
                h.update(b"\0")
        _tree_hash = h.hexdigest()
    return _tree_hash


_harness_hash = None


def harness_hash():
    global _harness_hash
    if _harness_hash is None:
        h = hashlib.sha256()
        for f in sorted(os.listdir(HARNESS)):
            with open(os.path.join(HARNESS, f), "rb") as fh:
                h.update(f.encode() + b"\0" + fh.read() + b"\0")
        _harness_hash = h.hexdigest()
    return _harness_hash


# ---------------------------------------------------------------------------------------------
# one job = one (configuration, TU, part): build + run


class Job(object):
    def __init__(self, prop, cfg, tu, part, members=None, extra_flags=(), run_args=()):
        self.prop = prop
        self.cfg = cfg
        self.tu = tu
        self.part = part
        self.members = members or [cfg]
        self.extra_flags = list(extra_flags)
        self.run_args = list(run_args)
        self.binary = None
        self.build_log = None
        self.build_ok = None
        self.result = None
        self.run_rc = None
        self.run_log = ""
        self.build_s = 0.0
        self.run_s = 0.0
        self.skipped = False
        self.timed_out = False

    @property
    def label(self):
        return "%s/%s[%s]" % (self.cfg.name, self.tu, self.part)

    def compile_cmd(self, out):
        spec = P.TUS[self.tu]
        cmd = [self.cfg.cxx()] + self.cfg.base_flags() + ["-O2", "-w", "-I", INC, "-I", HARNESS]
        cmd += ["-DVX_PART=%s" % P.PART_DEFINE[self.part]] if self.part else []
        cmd += spec.get("flags", []) + self.extra_flags
        srcs = [os.path.join(HARNESS, s) for s in spec["sources"]]
        objs = [os.path.join(os.path.dirname(out), os.path.basename(c) + ".o") for c in spec.get("c_sources", [])]
        cmd += srcs + objs + ["-o", out] + spec.get("libs", [])
        return cmd

    def c_compile_cmds(self, out):
        spec = P.TUS[self.tu]
        cmds = []
        for c in spec.get("c_sources", []):
            cmds.append(["gcc", "-O1", "-w", "-fno-builtin", "-c", os.path.join(HARNESS, c), "-o", os.path.join(os.path.dirname(out), os.path.basename(c) + ".o")])
        return cmds

    def key(self):
        h = hashlib.sha256()
        h.update(include_tree_hash().encode())
        h.update(harness_hash().encode())
        h.update(" ".join(self.compile_cmd("OUT")).encode())
        return h.hexdigest()[:24]


def build_job(job):
    t0 = time.time()
    d = os.path.join(BUILD, "bin", job.key())
    exe = os.path.join(d, "h")
    job.binary = exe
    job.build_log = os.path.join(d, "build.log")
    if os.path.exists(exe) and os.path.exists(os.path.join(d, "ok")):
        job.build_ok = True
        os.utime(d, None)
        return job
    os.makedirs(d, exist_ok=True)
    cmd = job.compile_cmd(exe)
    pre = b""
    for cc in job.c_compile_cmds(exe):
        pc = subprocess.run(cc, stdout=subprocess.PIPE, stderr=subprocess.STDOUT)
        pre += (" ".join(cc) + "\n").encode() + pc.stdout
    p = subprocess.run(cmd, stdout=subprocess.PIPE, stderr=subprocess.STDOUT)
    with open(job.build_log, "wb") as fh:
        fh.write(pre)
        fh.write((" ".join(cmd) + "\n").encode())
        fh.write(p.stdout)
    job.build_ok = p.returncode == 0
    if job.build_ok:
        open(os.path.join(d, "ok"), "w").close()
    job.build_s = time.time() - t0
    return job


def run_job(job, tier, seed, timeout, deadline=None):
    t0 = time.time()
    if deadline is not None:
        # a harness still running when the check's deadline (plus a grace period) passes is stopped and counted as not explored, never as a failure:
        # under load a slow run is not a hang. The evidence then says exhaustive=false and names the jobs.
        timeout = max(30, min(timeout, deadline + (120 if tier == "quick" else 300) - t0))
    d = os.path.dirname(job.binary)
    out = os.path.join(d, "result.%s.%d.%d.json" % (tier, os.getpid(), id(job)))
    cmd = [job.binary, "--tier", tier, "--seed", str(seed), "--out", out] + job.run_args
    try:
        p = subprocess.run(cmd, stdout=subprocess.PIPE, stderr=subprocess.STDOUT, timeout=timeout)
        job.run_rc = p.returncode
        job.run_log = p.stdout.decode("utf-8", "replace")[-4000:]
    except subprocess.TimeoutExpired as e:
        job.run_rc = -999
        job.run_log = "timeout after %ds" % timeout
        if deadline is not None:
            job.skipped = True
            job.timed_out = True
    if job.run_rc == 0 and os.path.exists(out):
        try:
            job.result = json.load(open(out))
        except Exception as e:  # noqa
            job.run_log += "\nunparsable result: %s" % e
            job.run_rc = -998
    if os.path.exists(out):
        os.unlink(out)
    job.run_s = time.time() - t0
    return job


def build_and_run(job, tier, seed, timeout, deadline):
    if time.time() > deadline:
        job.skipped = True
        return job
    if job.build_ok is None:
        build_job(job)
    if not job.build_ok:
        return job
    if time.time() > deadline:
        job.skipped = True
        return job
    spec = P.TUS[job.tu]
    if spec.get("norun"):
        job.result = {"stats": [], "notes": [], "mxcsr_changes": [], "wall_s": 0}
        job.run_rc = 0
        return job
    if spec.get("link_check"):
        syms = undefined_symbols(job.build_log)
        if syms:
            stats = []
            for sym in syms:
                m = re.search(r"Vector(?:_mask)?<([^,>]+), (\d+)u?>", sym)
                subj = "link"
                if m:
                    tmap = {"unsigned char": "8u", "signed char": "8i", "unsigned short": "16u", "short": "16i", "unsigned int": "32u", "int": "32i",
                            "unsigned long": "64u", "long": "64i", "float": "32f", "double": "64f"}
                    subj = "vec%sx%s" % (m.group(2), tmap.get(m.group(1), m.group(1)))
                fn = sym.split("(")[0]
                stats.append({"subject": subj, "op": "undefined_reference:" + fn, "domain": "link of the generic API program", "evals": 1, "distinct": 1,
                              "nontrivial": 1, "fails": 1, "fp": hashlib.sha1(sym.encode()).hexdigest()[:16], "digest": "0", "signal": 0,
                              "witnesses": [{"undefined_reference": sym}], "samples": [{"symbol": sym}]})
            job.result = {"stats": stats, "notes": [], "mxcsr_changes": [], "wall_s": 0}
            job.run_rc = 0
            return job
    run_job(job, tier, seed, timeout, deadline)
    return job


def undefined_symbols(logpath):
    try:
        txt = open(logpath, errors="replace").read()
    except Exception:
        return []
    out = []
    for m in re.finditer(r"undefined reference to `([^']+)'", txt):
        if m.group(1).startswith("avel::") and m.group(1) not in out:
            out.append(m.group(1))
    return out


def first_error_line(logpath):
    try:
        txt = open(logpath, errors="replace").read()
    except Exception:
        return "no build log"
    lines = txt.splitlines()
    # a hard link error says more than the 'undefined reference' warnings (link_check programs are linked with --warn-unresolved-symbols) before it
    hard = [l for l in lines if "multiple definition of" in l]
    for line in hard + lines:
        if " error" in line or "undefined reference" in line or "static assertion failed" in line or "static_assert failed" in line or "multiple definition of" in line:
            line = re.sub(r"/[\w/.+-]*/", "", line)
            line = re.sub(r":\d+:\d+:", ":", line)
            line = re.sub(r":\d+:", ":", line)
            return line.strip()[:300]
    return "build failed (no error line)"


# ---------------------------------------------------------------------------------------------
# configuration classes


def class_groups(cfgs, part_family):
    """Group configurations by class key for the part's family. Returns list of (rep, members)."""
    with cf.ThreadPoolExecutor(NCPU) as ex:
        hashes = list(ex.map(C.preprocess_hashes, cfgs))
    groups = {}
    order = []
    for cfg, h in zip(cfgs, hashes):
        k = C.class_key(h, part_family)
        if k is None:
            k = "nopp:" + cfg.name
        # compiler, standard and variant change code generation / library arms outside AVEL text
        k = (k, cfg.compiler, cfg.std, cfg.variant)
        if k not in groups:
            groups[k] = []
            order.append(k)
        groups[k].append(cfg)
    return [(groups[k][0], groups[k]) for k in order]


# ---------------------------------------------------------------------------------------------
# cache eviction


def evict_cache(limit_bytes=4 << 30):
    root = os.path.join(BUILD, "bin")
    if not os.path.isdir(root):
        return
    ents = []
    total = 0
    for d in os.listdir(root):
        p = os.path.join(root, d)
        try:
            sz = sum(os.path.getsize(os.path.join(p, f)) for f in os.listdir(p))
            ents.append((os.path.getmtime(p), sz, p))
            total += sz
        except OSError:
            pass
    ents.sort()
    while total > limit_bytes and ents:
        _, sz, p = ents.pop(0)
        shutil.rmtree(p, ignore_errors=True)
        total -= sz


# ---------------------------------------------------------------------------------------------
# replay


def replay_file(path):
    r = json.load(open(path))
    cfg = C.Config.from_json(r["config"])
    job = Job(r["property"], cfg, r["tu"], r.get("part"), extra_flags=r.get("extra_flags", []))
    if r.get("kind") == "build":
        d = os.path.join(BUILD, "bin", job.key())
        shutil.rmtree(d, ignore_errors=True)
        build_job(job)
        if job.build_ok:
            print("replay: build now succeeds")
            return 0
        print("replay: build fails: " + first_error_line(job.build_log))
        return 1
    build_job(job)
    if not job.build_ok:
        print("replay: harness does not build: " + first_error_line(job.build_log))
        return 1
    outs = []
    for _ in range(2):
        cmd = [job.binary, "--tier", r.get("tier", "quick"), "--replay", "--only", "%s:%s" % (r["subject"], r["op"])]
        for a in r.get("args", []):
            cmd += ["--arg", a]
        cmd += r.get("run_args", [])
        p = subprocess.run(cmd, stdout=subprocess.PIPE, stderr=subprocess.STDOUT, timeout=600)
        outs.append((p.returncode, p.stdout.decode("utf-8", "replace").strip()))
    if outs[0] != outs[1]:
        print("replay: NON-DETERMINISTIC")
        print(outs)
        return 2
    rc, txt = outs[0]
    print(txt)
    fails = None
    for line in txt.splitlines():
        if line.startswith("{\"replay\""):
            try:
                fails = json.loads(line).get("fails")
            except Exception:
                pass
    if rc != 0:
        print("replay: harness exit code %d" % rc)
        return 1
    if fails is None:
        print("replay: no verdict line")
        return 2
    return 1 if fails else 0


# ---------------------------------------------------------------------------------------------
# main check


def run_check(pid, tier):
    t_start = time.time()
    seed = int(os.environ.get("VERIF_SEED", "0") or 0)
    default_deadline = 900 if tier == "quick" else 3000
    deadline = t_start + float(os.environ.get("VERIF_DEADLINE_S", default_deadline))
    spec = P.PROPS[pid]
    os.makedirs(os.path.join(BUILD, "bin"), exist_ok=True)
    os.makedirs(os.path.join(OUT, "replays"), exist_ok=True)
    os.makedirs(os.path.join(OUT, "evidence"), exist_ok=True)

    if "custom" in spec:
        import importlib
        mod = importlib.import_module(spec["custom"])
        return mod.run(sys.modules[__name__], pid, tier, seed, deadline, t_start)

    cfgs = spec["configs"](tier)
    builds = []
    classes_info = []
    for tu in spec["tus"]:
        for part in P.TUS[tu]["parts"]:
            fam = P.TUS[tu].get("family") or P.PART_FAMILY[part]
            groups = class_groups(cfgs, fam)
            for rep, members in groups:
                xf = []
                if "cfg_flags" in P.TUS[tu]:
                    fn = P.TUS[tu]["cfg_flags"]
                    xf = fn(rep, tier, part) if fn.__code__.co_argcount >= 3 else fn(rep, tier)
                builds.append(Job(pid, rep, tu, part, members, extra_flags=xf))
            classes_info.append({"tu": tu, "part": part, "configs": len(cfgs), "classes": len(groups)})
    log("[%s %s] %d configurations -> %d harness builds" % (pid, tier, len(cfgs), len(builds)))
    timeout = int(os.environ.get("VERIF_JOB_TIMEOUT_S", 900 if tier == "quick" else 3000))
    # phase 1: build every distinct harness once
    def _b(j):
        if time.time() > deadline:
            j.skipped = True
            return j
        return build_job(j)
    with cf.ThreadPoolExecutor(NCPU) as ex:
        list(ex.map(_b, builds))
    # phase 2: run, sharded where the TU asks for it (each shard explores a disjoint subset of (subject, operation) pairs)
    jobs = []
    for b in builds:
        nsh = P.shards_for(b.tu, tier, b.part)
        if b.skipped or not b.build_ok or nsh <= 1:
            jobs.append(b)
            continue
        for k in range(nsh):
            j = Job(pid, b.cfg, b.tu, b.part, b.members, b.extra_flags, ["--shard", "%d/%d" % (k, nsh)])
            j.binary, j.build_log, j.build_ok, j.build_s = b.binary, b.build_log, True, (b.build_s if k == 0 else 0.0)
            j.shard = k
            jobs.append(j)
    if seed:
        import random
        random.Random(seed).shuffle(jobs)
    with cf.ThreadPoolExecutor(NCPU) as ex:
        futs = [ex.submit(build_and_run, j, tier, seed, timeout, deadline) for j in jobs]
        for fu in cf.as_completed(futs):
            fu.result()
    return finish(pid, tier, seed, jobs, classes_info, t_start, deadline)


def finish(pid, tier, seed, jobs, classes_info, t_start, deadline, extra_cov=None):
    failures = []  # dicts: kind, config, subject, op, count, fp, witness, job
    stats_total = {"evals": 0, "distinct": 0, "nontrivial": 0, "ops": 0, "subjects": set(), "bfs_states": 0, "bfs_transitions": 0}
    samples = []
    mxcsr = []
    skipped = 0
    timed_out = []
    notes = set()
    per_job = []
    outcomes = set()
    for j in jobs:
        if j.skipped:
            skipped += 1
            if j.timed_out:
                timed_out.append(j.label + (" " + " ".join(j.run_args) if j.run_args else ""))
            continue
        if not j.build_ok:
            failures.append({"kind": "build", "job": j, "subject": j.tu + "[" + str(j.part) + "]", "op": "compile",
                             "count": 1, "fp": hashlib.sha1(first_error_line(j.build_log).encode()).hexdigest()[:16],
                             "witness": {"error": first_error_line(j.build_log), "log": j.build_log}})
            continue
        if j.run_rc != 0 or j.result is None:
            failures.append({"kind": "crash", "job": j, "subject": j.tu + "[" + str(j.part) + "]", "op": "run",
                             "count": 1, "fp": "%016x" % (j.run_rc & 0xffffffff),
                             "witness": {"exit": j.run_rc, "log": j.run_log[-1500:]}})
            continue
        res = j.result
        stats_total["bfs_states"] += int(res.get("bfs_states", 0) or 0)
        stats_total["bfs_transitions"] += int(res.get("bfs_transitions", 0) or 0)
        per_job.append({"config": j.cfg.name, "tu": j.tu, "part": j.part, "members": [m.name for m in j.members],
                        "build_s": round(j.build_s, 1), "run_s": round(j.run_s, 1), "ops": len(res["stats"])})
        for n in res.get("notes", []):
            notes.add(n)
        for m in res.get("mxcsr_changes", []):
            mxcsr.append((j, m))
        for s in res["stats"]:
            stats_total["evals"] += s["evals"]
            stats_total["distinct"] += s.get("distinct", s["evals"])
            stats_total["nontrivial"] += s["nontrivial"]
            stats_total["ops"] += 1
            stats_total["subjects"].add(s["subject"])
            outcomes.add(s["digest"])
            if len(samples) < 6 and s["samples"]:
                samples.append({"config": j.cfg.name, "subject": s["subject"], "op": s["op"], "domain": s["domain"],
                                "case": s["samples"][len(samples) % len(s["samples"])]})
            if s["fails"]:
                failures.append({"kind": "value" if not s["signal"] else "signal", "job": j, "subject": s["subject"],
                                 "op": s["op"], "count": s["fails"], "fp": s["fp"],
                                 "witness": s["witnesses"][0] if s["witnesses"] else {}, "domain": s["domain"]})
    for j, m in mxcsr:
        subj_op = m.split(" ")[0]
        subj, _, op = subj_op.partition(":")
        failures.append({"kind": "fpenv", "job": j, "subject": subj, "op": "fpenv:" + op, "count": 1,
                         "fp": hashlib.sha1(m.encode()).hexdigest()[:16], "witness": {"change": m}, "prop_override": "C11"})

    # determinism: replay the first witness of each failing value stat twice
    nondeterministic = []
    replayable = [f for f in failures if f["kind"] in ("value", "signal") and f["witness"].get("args")]
    def _replay(f):
        j = f["job"]
        outs = []
        for _ in range(2):
            cmd = [j.binary, "--tier", tier, "--replay", "--only", "%s:%s" % (f["subject"], f["op"])] + j.run_args
            for a in f["witness"]["args"]:
                cmd += ["--arg", a]
            try:
                p = subprocess.run(cmd, stdout=subprocess.PIPE, stderr=subprocess.DEVNULL, timeout=120)
                outs.append(p.stdout.decode("utf-8", "replace"))
            except subprocess.TimeoutExpired:
                outs.append("timeout")
        ok = outs[0] == outs[1] and ('"fails":0' not in outs[0]) and '"replay":true' in outs[0]
        return f, ok, outs
    with cf.ThreadPoolExecutor(NCPU) as ex:
        for f, ok, outs in ex.map(_replay, replayable[:400]):
            f["replayed"] = ok
            if not ok:
                nondeterministic.append((f, outs))

    # attribute to known findings
    kf = F.load(os.path.join(VERIF, "known_findings.json"))
    matched_entries = {}
    violations = []
    for f in failures:
        j = f["job"]
        prop = f.get("prop_override", pid)
        ent = None
        for cfg in j.members[:1]:
            ent = F.match(kf, prop, cfg, f["subject"], f["op"], tier, f["count"], f["fp"], f["kind"])
        if ent is not None:
            matched_entries.setdefault(ent["id"], [ent, 0])[1] += 1
        else:
            violations.append(f)

    # replay files for violations: one per cluster (property, subject, operation, failing-set fingerprint)
    vio_lines = []
    clusters = {}
    corder = []
    for f in violations:
        prop = f.get("prop_override", pid)
        k = (prop, f["subject"], f["op"], f["count"], f["fp"], f["kind"])
        if k not in clusters:
            clusters[k] = []
            corder.append(k)
        clusters[k].append(f)
    for n, k in enumerate(corder):
        fs = clusters[k]
        f = fs[0]
        j = f["job"]
        prop = k[0]
        rp = os.path.join(OUT, "replays", "%s_%s_%03d.json" % (pid, tier, n))
        rec = {"property": prop, "tier": tier, "config": j.cfg.to_json(), "tu": j.tu, "part": j.part,
               "extra_flags": j.extra_flags, "run_args": j.run_args,
               "kind": f["kind"], "subject": f["subject"], "op": f["op"],
               "args": f["witness"].get("args", []) if isinstance(f["witness"], dict) else [],
               "count": f["count"], "fp": f["fp"], "witness": f["witness"], "domain": f.get("domain"),
               "configs_failing": [x["job"].cfg.name for x in fs],
               "closed_sets_failing": [sorted(x["job"].cfg.closed) for x in fs],
               "class_members": [[m.name for m in x["job"].members] for x in fs]}
        with open(rp, "w") as fh:
            json.dump(rec, fh, indent=1)
        vio_lines.append("VIOLATION property=%s replay=%s" % (prop, rp))
        if n < int(os.environ.get('VERIF_LOG_CLUSTERS', '12')):
            w = dict(f["witness"]) if isinstance(f["witness"], dict) else {}
            w.pop("args", None)
            log("  violation: %s %s:%s count=%d fp=%s in %d configs (%s ...) %s" % (
                prop, f["subject"], f["op"], f["count"], f["fp"], len(fs), ",".join(x["job"].cfg.name for x in fs[:3]), json.dumps(w)[:200]))

    exhaustive = skipped == 0
    if extra_cov and extra_cov.get("states_override"):
        stats_total["distinct"] = max(stats_total["distinct"], extra_cov["states_override"])
        stats_total["evals"] = max(stats_total["evals"], extra_cov["states_override"])
        stats_total["nontrivial"] = max(stats_total["nontrivial"], extra_cov["states_override"])
        if not samples:
            samples.append({"configuration": jobs[0].cfg.name, "command": " ".join(jobs[0].compile_cmd("OUT"))[:600]})
    if stats_total["bfs_states"]:
        # state explorers report their own search statistics: distinct representations / histories and executed transitions
        st_states, st_trans = stats_total["bfs_states"], stats_total["bfs_transitions"]
    elif extra_cov and extra_cov.get("states_override"):
        st_states, st_trans = extra_cov["states_override"], stats_total["evals"]
    else:
        st_states, st_trans = stats_total["distinct"], stats_total["evals"]
    cov = {
        "states": st_states,
        "transitions": st_trans,
        "traces_validated_against_impl": stats_total["evals"],
        "evaluations": stats_total["evals"],
        "distinct_nontrivial": stats_total["nontrivial"],
        "rule": P.PROPS[pid].get("rule", ""),
        "samples": samples[:6] if samples else [{"note": "no sample recorded"}],
        "exhaustive": exhaustive,
        "explanation": P.PROPS[pid].get("explanation", ""),
        "configs_run": sorted(set(j.cfg.name for j in jobs if not j.skipped)),
        "classes": classes_info,
        "jobs": len(jobs), "jobs_skipped_deadline": skipped, "jobs_stopped_at_deadline": timed_out[:40],
        "operations_explored": stats_total["ops"],
        "subjects": sorted(stats_total["subjects"]),
        "distinct_outcome_digests": len(outcomes),
        "known_findings_matched": sorted(matched_entries),
        "failing_cases_total": len(failures),
        "not_provided": sorted(notes)[:60],
        "per_job": per_job[:200],
    }
    if extra_cov:
        cov.update(extra_cov)
    ev = {
        "property_id": pid, "tier": tier, "seed": seed, "level": "model_checking", "coverage": cov,
        "assumptions": P.PROPS[pid].get("assumptions", []) + P.COMMON_ASSUMPTIONS,
        "wall_s": round(time.time() - t_start, 1), "violations": len(violations),
    }
    evp = os.path.join(OUT, "evidence", pid + ".json")
    with open(evp + ".tmp", "w") as fh:
        json.dump(ev, fh, indent=1)
    os.replace(evp + ".tmp", evp)

    for eid, (ent, n) in sorted(matched_entries.items()):
        print("KNOWN-FINDING: property=%s %s [%s; %d failing (configuration, subject, operation) cases]" % (ent["property"], ent["what"], eid, n))
    for l in vio_lines[:20]:
        print(l)
    if len(vio_lines) > 20:
        print("... and %d more VIOLATION clusters (see %s/replays)" % (len(vio_lines) - 20, VERIF))
    if nondeterministic:
        for f, outs in nondeterministic[:5]:
            log("NON-REPRODUCED failure: %s %s:%s %s" % (f["job"].cfg.name, f["subject"], f["op"], repr(outs)[:300]))
        log("framework error: %d failures did not reproduce on replay" % len(nondeterministic))
    log("[%s %s] jobs=%d skipped=%d evals=%d failures=%d known=%d violations=%d wall=%.0fs" % (
        pid, tier, len(jobs), skipped, stats_total["evals"], len(failures), len(failures) - len(violations), len(violations),
        time.time() - t_start))
    evict_cache()
    if violations:
        return 1
    if nondeterministic:
        return 2
    return 0


def main(argv):
    if argv and argv[0] == "--selftest":
        # setup: the tools import, compilers exist, the lattice closes to the expected size
        n = len(C.all_closed_sets())
        for cxx in ("g++", "clang++"):
            subprocess.check_call([cxx, "--version"], stdout=subprocess.DEVNULL)
        print("selftest ok: %d closed macro sets" % n)
        return 0
    if len(argv) >= 2 and argv[0] == "--replay":
        return replay_file(argv[1])
    if len(argv) < 2:
        print(__doc__)
        return 2
    pid, tier = argv[0], argv[1]
    if pid not in P.PROPS:
        print("unknown property " + pid)
        return 2
    return run_check(pid, tier)


if __name__ == "__main__":
    sys.exit(main(sys.argv[1:]))
