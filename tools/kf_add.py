#!/usr/bin/env python3
"""Developer tool (never run by a check): add/refresh the cases of a known-finding entry from the replay clusters of the last run.
   tools/kf_add.py <entry-id> <property> <pid-run> <tier> <op-regex> <subject-regex> [--when EXPR] [--what TEXT] [--any]"""
import glob, json, re, sys
a = sys.argv[1:]
eid, prop, pid, tier, opre, sre = a[:6]
when = what = None
anyfp = False
replace = False
i = 6
while i < len(a):
    if a[i] == '--when': when = a[i+1]; i += 2
    elif a[i] == '--what': what = a[i+1]; i += 2
    elif a[i] == '--any': anyfp = True; i += 1
    elif a[i] == '--replace': replace = True; i += 1
    else: raise SystemExit('bad arg ' + a[i])
p = '/verif/known_findings.json'
kf = json.load(open(p))
ent = None
for e in kf['findings']:
    if e['id'] == eid:
        ent = e
if ent is None:
    ent = {"id": eid, "property": prop, "when": when or "true", "what": what or "TODO", "cases": []}
    kf['findings'].append(ent)
if when is not None: ent['when'] = when
if what is not None: ent['what'] = what
ent['property'] = prop
# with --replace: drop old cases of this tier matching the regexes (after a change of the tier's domains)
if replace:
    ent['cases'] = [c for c in ent['cases'] if not (c.get('tier') == tier and re.fullmatch(opre, c['op']) and re.fullmatch(sre, c['subject']))]
n = 0
cfgs = set()
for f in sorted(glob.glob('/verif/replays/%s_%s_*.json' % (pid, tier))):
    r = json.load(open(f))
    if r['property'] != prop or not re.fullmatch(opre, r['op']) or not re.fullmatch(sre, r['subject']):
        continue
    c = {"subject": r['subject'], "op": r['op'], "tier": tier, "kind": r['kind'], "count": r['count'], "fp": "any" if anyfp else r['fp']}
    if c not in ent['cases']:
        ent['cases'].append(c)
        n += 1
    cfgs.update(r['configs_failing'])
    if 'witness' not in ent and isinstance(r['witness'], dict):
        w = dict(r['witness']); w.pop('args', None)
        ent['witness'] = {"subject": r['subject'], "op": r['op'], "config": r['config']['name'], "case": w}
json.dump(kf, open(p, 'w'), indent=1)
print("entry %s: +%d cases (%d total); failing configs seen: %s" % (eid, n, len(ent['cases']), sorted(cfgs)[:30]))
