#!/usr/bin/env python3
"""developer tool: regenerate the detection-matrix table of DESIGN.md section 17 from seeded/*/meta.json"""
import glob, json, os, re
HERE = os.path.dirname(os.path.abspath(__file__))
root = os.path.dirname(HERE)
rows = []
for d in sorted(glob.glob(os.path.join(root, "seeded", "*"))):
    mp = os.path.join(d, "meta.json")
    if not os.path.exists(mp):
        continue
    m = json.load(open(mp))
    rows.append("| %s | %s | %s | %s |" % (os.path.basename(d), m["property"], m["needs_to_manifest"].replace("|", "/"), m["checks"].replace("|", "/")))
p = os.path.join(root, "DESIGN.md")
s = open(p).read()
head = "| seed | property | what it needs to manifest | reported by |\n|---|---|---|---|\n"
i = s.index(head) + len(head)
j = s.index("\n\n", i)
s = s[:i] + "\n".join(rows) + s[j:]
open(p, "w").write(s)
print(len(rows), "rows")
