#!/usr/bin/env python3
"""Property table: which harness TUs decide which property, over which configuration tiers."""
import configs as C

PART_DEFINE = {"8": "8", "16": "16", "32": "32", "64": "64", "f32": "132", "f64": "164", None: "0", "all": "0"}
PART_FAMILY = {"8": "8", "16": "16", "32": "32", "64": "64", "f32": "f32", "f64": "f64", None: "all", "all": "all"}

INT_PARTS = ["8", "16", "32", "64"]
FLT_PARTS = ["f32", "f64"]

FLOAT_COVER = {"none@gcc11", "SSE2@gcc11", "SSE4_1@gcc11", "AVX2+FMA@gcc11", "F@gcc11", "VL+BW+DQ@gcc11", "FULL@clang11"}


def exh_flags(cfg, tier, part=None):
    """The exhaustive 2^32 passes (all pairs of a 16-bit type, all values of a 32-bit or float type) are the expensive part of every value check.
    quick: only the float passes, and only for the configurations that select distinct float arms (-DVX_EXH_QUICK);
    thorough: only for the arm-cover configurations (-DVX_EXH16 / -DVX_EXH32); every other configuration class explores the lattice domains."""
    if tier == "quick":
        return ["-DVX_EXH_QUICK=1"] if cfg.name in FLOAT_COVER else []
    cover = set(C.Config(x).name for x in C.ARM_COVER) | {"FULL@clang11"}
    if cfg.name not in cover:
        return []
    if part == "16":
        return ["-DVX_EXH16=1"]
    if part in ("32", "f32"):
        return ["-DVX_EXH32=1"]
    return []


exh16_flags = exh_flags
exh_quick_flags = exh_flags


def convert_pairs_flags(cfg, tier, part=None):
    """Scrape the width-1 cross-size convert<To, From> specialisations from the headers of the working tree: 'every pair for which a conversion is provided'."""
    import glob, os, re
    bits = {"8": "8", "16": "16", "32": "32", "64": "64"}.get(part)
    if bits is None:
        return []
    pairs = set()
    for f in glob.glob(os.path.join(C.INC, "avel/impl/vectors/Vec1x*.hpp")):
        for m in re.finditer(r"convert<((?:vec|mask)1x(\d+)([ui])), ((?:vec|mask)1x(\d+)([ui]))>\(", open(f).read()):
            to, tb, ts, fr, fb, fs = m.groups()
            if fb == bits and tb != fb:
                pairs.add((to, fr))
    body = " ".join(("XV(%s,%s)" if t.startswith("vec") else "XM(%s,%s)") % (t, f) for t, f in sorted(pairs))
    return ["-DVX_CONVERT_PAIRS=" + body]


TUS = {
    "t_arith": {"sources": ["t_arith.cpp"], "parts": INT_PARTS, "cfg_flags": exh16_flags, "shards": {"thorough": {"16": 8}}},
    "t_cmp": {"sources": ["t_cmp.cpp"], "parts": INT_PARTS + FLT_PARTS, "cfg_flags": exh16_flags, "shards": {"thorough": {"16": 8}}},
    "t_bit": {"sources": ["t_bit.cpp"], "parts": INT_PARTS, "cfg_flags": exh_flags, "shards": {"thorough": {"32": 8}}},
    "t_bitwise": {"sources": ["t_bitwise.cpp"], "parts": INT_PARTS, "cfg_flags": exh16_flags, "shards": {"thorough": {"16": 6}}},
    "t_shiftc": {"sources": ["t_shiftc.cpp"], "parts": INT_PARTS},
    "t_div": {"sources": ["t_div.cpp"], "parts": INT_PARTS, "cfg_flags": exh16_flags, "shards": {"thorough": {"16": 8}}},
    "t_farith": {"sources": ["t_farith.cpp"], "parts": FLT_PARTS, "cfg_flags": exh_flags, "shards": {"thorough": {"f32": 8}}},
    "t_fround": {"sources": ["t_fround.cpp"], "parts": FLT_PARTS, "cfg_flags": exh_quick_flags, "shards": {"quick": {"f32": 6}, "thorough": {"f32": 12, "f64": 2}}},
    "t_fmanip": {"sources": ["t_fmanip.cpp"], "parts": FLT_PARTS, "cfg_flags": exh_flags, "shards": {"thorough": {"f32": 5}}},
    "t_fclass": {"sources": ["t_fclass.cpp"], "parts": FLT_PARTS, "cfg_flags": exh_quick_flags, "shards": {"quick": {"f32": 6}, "thorough": {"f32": 6}}},
    "t_mask": {"sources": ["t_mask.cpp"], "parts": INT_PARTS + FLT_PARTS},
    "t_mem": {"sources": ["t_mem.cpp"], "parts": INT_PARTS + FLT_PARTS},
    "t_memfp": {"sources": ["t_mem.cpp"], "parts": INT_PARTS + FLT_PARTS, "flags": ["-DVX_FOOTPRINT=1"]},
    "t_memasan": {"sources": ["t_mem.cpp"], "parts": INT_PARTS + FLT_PARTS,
                  "flags": ["-DVX_ASAN_FOOTPRINT=1", "-fsanitize=address", "-fsanitize-recover=address", "-fno-omit-frame-pointer"]},
    # scalar Denominator<T> uses nothing of the vector headers: its configuration classes are those of the scalar headers alone
    "t_denom": {"sources": ["t_denom.cpp"], "parts": INT_PARTS, "family": "scalar"},
    "t_denomv": {"sources": ["t_denom.cpp"], "parts": INT_PARTS, "flags": ["-DVX_DENOM_VECTOR=1"]},
    # C16 is differential (vector lane against AVEL's own scalar overload); the values themselves get their 2^32 passes in C01..C13, so this harness runs the
    # lattice domains in both tiers (with the 2^32 passes its thorough tier skipped two thirds of its jobs at the deadline)
    "t_scalar": {"sources": ["t_scalar.cpp"], "parts": INT_PARTS + FLT_PARTS, "shards": {"thorough": {"16": 2, "32": 2}}},
    "t_convert": {"sources": ["t_convert.cpp"], "parts": INT_PARTS + FLT_PARTS, "cfg_flags": convert_pairs_flags},
    "t_alloc": {"sources": ["t_alloc.cpp"], "c_sources": ["vx_malloc.c"], "parts": [None],
                "flags": ["-fno-builtin-malloc", "-fno-builtin-free", "-fno-builtin-calloc", "-fno-builtin-realloc", "-fno-builtin-aligned_alloc", "-fno-builtin-posix_memalign", "-fno-builtin-memalign"]},
    "t_alloc_san": {"sources": ["t_alloc_san.cpp"], "parts": [None],
                    "flags": ["-O1", "-fsanitize=address,undefined", "-fsanitize-undefined-trap-on-error", "-fno-omit-frame-pointer"]},
    "t_prefetch": {"sources": ["t_prefetch.cpp"], "parts": [None]},
    "t_prefetch32": {"sources": ["t_prefetch.cpp"], "parts": [None], "flags": ["-DAVEL_L1_CACHE_LINE_SIZE=32", "-DAVEL_L2_CACHE_LINE_SIZE=32", "-DAVEL_L3_CACHE_LINE_SIZE=32"]},
    "t_prefetch128": {"sources": ["t_prefetch.cpp"], "parts": [None], "flags": ["-DAVEL_L1_CACHE_LINE_SIZE=128", "-DAVEL_L2_CACHE_LINE_SIZE=128", "-DAVEL_L3_CACHE_LINE_SIZE=128"]},
    "t_types": {"sources": ["t_types.cpp"], "parts": [None], "flags": ["-fsyntax-only"], "norun": True},
    "t_api": {"sources": ["t_api.cpp", "t_api2.cpp"], "parts": INT_PARTS + FLT_PARTS, "flags": ["-O0", "-Wl,--warn-unresolved-symbols"], "link_check": True},
    "t_select": {"sources": ["t_select.cpp"], "parts": INT_PARTS + FLT_PARTS, "cfg_flags": exh16_flags, "shards": {"thorough": {"16": 6, "8": 2}}},
}

def shards_for(tu, tier, part):
    sh = TUS[tu].get("shards", {}).get(tier, 1)
    if isinstance(sh, dict):
        sh = sh.get(part, 1)
    return sh


COMMON_ASSUMPTIONS = [
    "compiler correctness (GCC 12.2 / Clang 14) at -O2; other optimisation levels are not explored",
    "configurations with identical preprocessed AVEL text for every header in the subject family's dependency closure are one class (DESIGN 3.3)",
    "this CPU executes every x86 extension AVEL names; NEON/MSVC/ICPX/AVX10 arms are out of reach (DESIGN 11)",
    "reference models are plain C++ on the element type and never call into namespace avel",
]


UBSAN = [C.Config([], "gcc", 11, "ubsan"), C.Config(["POPCNT", "LZCNT", "BMI", "BMI2"], "gcc", 11, "ubsan")]


def int_cfgs(tier):
    return C.quick_configs(scalar=False) if tier == "quick" else C.thorough_configs()


def int_ubsan_cfgs(tier):
    """+ the intrinsic-free builds (width-1 vectors, scalar functions) under UBSan: 'never undefined'"""
    return int_cfgs(tier) + UBSAN[:1]


def scalar_cfgs(tier):
    return C.quick_configs(scalar=True) if tier == "quick" else C.thorough_configs()


def scalar_ubsan_cfgs(tier):
    return scalar_cfgs(tier) + UBSAN


PENDING = {}

def alloc_cfgs(tier):
    """the three implementations selected by the build: C++11/14 over-allocation, C++17/20 aligned_alloc, SSE _mm_malloc"""
    cfgs = [C.Config([], "gcc", 11), C.Config([], "gcc", 17), C.Config(["SSE2"], "gcc", 11), C.Config([], "clang", 11), C.Config([], "clang", 17), C.Config(["SSE2"], "clang", 17)]
    if tier == "thorough":
        cfgs += [C.Config([], "gcc", 14), C.Config([], "gcc", 20), C.Config(["SSE2"], "gcc", 20), C.Config(C.FULL, "gcc", 11), C.Config([], "clang", 20)]
    return cfgs


def prefetch_cfgs(tier):
    cfgs = [C.Config([], "gcc", 11), C.Config(["SSE2"], "gcc", 11), C.Config(C.FULL, "gcc", 11), C.Config([], "clang", 11), C.Config(["SSE2"], "clang", 11)]
    if tier == "thorough":
        cfgs += [C.Config(["AVX2"], "gcc", 17), C.Config(C.FULL, "clang", 20), C.Config([], "gcc", 20), C.Config(["X86"], "gcc", 11), C.Config(["SSE4_2"], "clang", 14)]
    return cfgs


PROPS = {
    "C01": {
        "tus": ["t_arith"],
        "configs": int_ubsan_cfgs,
        "rule": "phase 1: every operand tuple of the declared domain (8-bit: all pairs; 16-bit: D16xL16 u L16xD16 quick, all 2^32 pairs thorough; "
                "32/64-bit: boundary lattice L x L), packed W different tuples per vector; phase 2: every K x K tuple in every lane position "
                "against six neighbour fills. distinct_nontrivial counts phase-1 tuples (distinct by construction per configuration class, subject, "
                "operation) whose exact result leaves the element range or whose carry/borrow crosses an 8/16/32-bit sub-lane boundary.",
        "explanation": "exhaustive enumeration of start states (operand tuples) x one transition (the AVEL operation) on the real headers, "
                       "compared lane by lane with a uint64/__int128 reference model; states = phase-1 tuples, transitions = lane evaluations compared",
        "assumptions": [],
    },
    "C02": {
        "tus": ["t_cmp"],
        "configs": int_cfgs,
        "rule": "phase 1: every operand pair of the declared domain (8-bit all pairs; 16-bit D16xL16 u L16xD16 quick / all 2^32 pairs thorough; "
                "32/64-bit L x L incl. the quarter lattice (equal upper half, lower halves across 0x8000..); floats F32L x F32L, F64L x F64L with "
                "both NaN kinds and signs, zeros, subnormals, infinities); phase 2: K x K in every lane against every neighbour fill. "
                "non-trivial: operands differ in sign, or agree in the upper half and differ in the lower, or involve NaN / zero.",
        "explanation": "every comparison operator on every tuple, mask decoded from its raw representation (dirty lanes are failures), "
                       "compared with the C++ scalar operator; the mask is also observed through Vector(mask)",
        "assumptions": [],
    },
    "C06": {
        "tus": ["t_bit"],
        "configs": scalar_cfgs,
        "rule": "every element value for 8- and 16-bit types (and 32-bit in thorough; L32 lattice in quick), the full L64 lattice "
                "(one/two-bit patterns, low/high masks, neighbours, complements) for 64-bit; K in every lane against every fill. "
                "non-trivial: input is 0, all-ones, has its top bit set, or the result is non-zero.",
        "explanation": "each <bit>-family function a type provides, on every value, against bit-loop models of the C++20 definitions",
        "assumptions": [],
    },
    "C07": {
        "tus": ["t_select"],
        "configs": int_cfgs,
        "rule": "8-bit: all pairs and all triples (clamp, blend/keep/clear/negate with the mask derived from the third operand); 16-bit: "
                "D16xL16 u L16xD16 (all pairs thorough) and L16^3; 32/64-bit: L x L and K-based triples; floats: F32L^2, F64L^2, KF-based triples, "
                "F64S/F32L unary; K tuples in every lane against every fill. non-trivial: a+b odd or out of range or an operand equal to MIN "
                "(integers); zero / opposite-sign / infinite / equal operands (floats); for mask-driven operations: mask set or operands differ; "
                "for clamp: x outside [lo, hi].",
        "explanation": "selection and ordering operations on every tuple; masks are constructed from raw representation bytes by the harness; "
                       "models in __int128 (average = trunc((a+b)/2), midpoint = a + trunc((b-a)/2)); float min/max/clamp compared by value on "
                       "non-NaN operands, sign-bit operations and blend/keep/clear compared bit for bit",
        "assumptions": [],
    },
    "C04": {
        "tus": ["t_bitwise", "t_shiftc"],
        "configs": scalar_ubsan_cfgs,
        "rule": "values: every 8/16-bit value, the L32/L64 one-/two-bit, mask and boundary patterns; amounts: every shift amount 0..bits, rotation amounts "
                "0..2*bits+1, k*bits+r, negative, +-2^31, +-2^62, LLONG_MIN/MAX (scalar forms) and 0..2*bits+1 plus K (per-lane forms); per-lane forms "
                "carry a different amount in every lane; K x K in every lane against in-domain neighbour fills. non-trivial: amount 0 or bits (or outside 0..bits for rotations), "
                "or bits moving across an 8/16/32-bit sub-lane boundary; for & | ^: both operands non-zero and different.",
        "explanation": "bitwise operators, shifts by scalar / per-lane vector / compile-time constant and rotations in all three forms on every (value, amount) pair of the alphabet, "
                       "against shift models with explicit full-width handling and rotation amounts reduced by a mathematical modulo",
        "assumptions": ["shift amounts outside [0, bits] are outside the property and are never generated for the lane under check"],
    },
    "C05": {
        "tus": ["t_div"],
        "configs": int_cfgs,
        "rule": "8-bit: all (dividend, divisor) pairs; 16-bit: D16xL16 u L16xD16 quick / all 2^32 pairs thorough; 32/64-bit: L x L plus the constructed family "
                "{q*d+r : r in {0,1,d-1}}; every packed vector of the exhaustive passes contains zero divisors next to in-domain lanes; K x K in every lane with "
                "zero-divisor and MIN/-1 neighbour fills (W>1). Out-of-domain lanes (d == 0, MIN/-1) are never executed for width 1 and are don't-care for W>1. "
                "non-trivial: |quotient| >= 2.",
        "explanation": "div(x,y).quot/.rem, x/y, x%y, /=, %= and quot*y+rem on every pair, against __int128 truncating division; SIGFPE in any vector op is a violation",
        "assumptions": [],
    },
    "C10": {
        "tus": ["t_farith"],
        "configs": int_cfgs,
        "rule": "for each of the four rounding modes: every pair of F32L x F32L (every exponent x boundary mantissas x sign, subnormal powers of two, both NaN kinds) "
                "and F64L x F64L for + - * / and compound forms; F32L u F32H (halfway cases) / F64S for ++/--, unary minus and sqrt (all 2^32 floats for sqrt in thorough); "
                "KF x KF in every lane against seven neighbour fills. non-trivial: result is NaN, zero, infinite or subnormal, or an operand is NaN.",
        "explanation": "every arithmetic operator on every pair in every rounding mode against the hardware scalar operation under the same mode (volatile operands); "
                       "NaN results compare as NaN, everything else bit for bit; unary minus is compared with an xor of the sign bit",
        "assumptions": ["the hardware scalar SSE operation under fesetround() is the IEEE-754 reference"],
    },
    "C11": {
        "tus": ["t_fround"],
        "configs": int_cfgs,
        "rule": "ceil/floor/trunc/round/nearbyint/rint under FE_TONEAREST: every one of the 2^32 float bit patterns for the widest float vector of each "
                "float-arm configuration class (quick) / for every width of the arm-cover configurations (thorough), F32L u F32H for the other widths and classes, "
                "F64S for double; all six functions again under FE_UPWARD, FE_DOWNWARD and FE_TOWARDZERO over F32L u F32H / F64S (over the 2^32 patterns "
                "in the arm-cover builds of thorough); KF in every lane against every fill. non-trivial: finite non-integral input below 2^23 (2^52).",
        "explanation": "every rounding function on every bit pattern against <cmath> under the same rounding mode; comparison is bit for bit when the input is "
                       "integral, infinite or zero (so f(-0.0) must be -0.0), NaN for NaN, and by value otherwise (libm's -0.0 for inputs in (-1,-0) equals AVEL's +0.0). "
                       "round is compared with a bit-pattern reference that a start-up self-check binds to glibc's round in every mode. "
                       "The MXCSR/x87 control words are compared before and after every exploration in every harness of C01..C17 (second clause).",
        "assumptions": ["glibc's ceilf/floorf/truncf/nearbyintf/rintf (inlined as SSE4.1 rounding instructions) and round (through the self-checked reference) are the reference",
                        "Clang builds: round of the width-1 vector and of the scalar overload (both forward to std::round) is explored under FE_TONEAREST only - "
                        "Clang expands std::round inline to a sequence that depends on the rounding mode, which is the compiler's choice and not AVEL code"],
    },
    "C12": {
        "tus": ["t_fmanip"],
        "configs": int_cfgs,
        "rule": "unary functions (frexp both outputs, ilogb, logb, frac): F32L u F32H incl. every subnormal power of two (all 2^32 floats in thorough), F64S; "
                "ldexp/scalbn: F32L x EXP / F64L x EXP with EXP = every int in [-1200,1200], +-2^k, +-2^k+-1, INT_MIN/INT_MAX, a different exponent in every lane; "
                "fmax/fmin/fdim: F32L^2, F64L^2; KF tuples in every lane against every fill; frexp, ilogb, logb, frac (lattice) and fdim again under FE_UPWARD, FE_DOWNWARD and "
                "FE_TOWARDZERO. non-trivial: zero, subnormal, infinite or NaN input or result.",
        "explanation": "each function on every member of the domain against <cmath> under the same rounding mode; bit for bit except NaN results (any NaN) and, for "
                       "frac/fmax/fmin/fdim (and logb under a directed mode), zero results (either sign); frexp's exponent is not compared for +-inf/NaN inputs (the statement does not define it)",
        "assumptions": ["glibc <cmath> is the reference", "ldexp/scalbn ('overflow to infinity') and fmax/fmin are explored under FE_TONEAREST only"],
    },
    "C13": {
        "tus": ["t_fclass"],
        "configs": int_cfgs,
        "rule": "fpclassify/isnan/isinf/isfinite/isnormal/signbit: every one of the 2^32 float patterns for the widest float vector of the float-arm cover configurations "
                "(every width, every configuration class in thorough), F32L u F32H elsewhere, F64S for double; quiet comparisons: F32L^2 and F64L^2 (both NaN kinds and signs, "
                "zeros, subnormals, infinities); KF tuples in every lane. non-trivial: NaN, infinite, zero, subnormal or negative operand; equal operands.",
        "explanation": "classification and quiet comparison functions on every bit pattern / pair against the <cmath> macros",
        "assumptions": ["glibc <cmath> classification macros are the reference"],
    },
    "C03": {
        "tus": ["t_mask"],
        "configs": int_cfgs,
        "rule": "states = distinct concrete representations (raw bytes) of each of the 40 mask types; initial states: mask(false), mask(true), mask(std::array) for every "
                "one of the 2^N lane patterns (N <= 16) or the structured MASK(N) alphabet (N = 32/64), mask(vector) for vectors holding {0,1,MIN,MAX,-0.0,NaN,inf,denormal,...} "
                "in each lane position; transitions: !, &=, |=, ^=, &, |, ^, &&, || against the generator set (all-false, all-true, single lanes, alternating, low half), "
                "insert<I>(m,b) for every I and both b, assignment from bool; search to closure for N <= 16 and to depth 1 (quick) / 2 (thorough) for N = 32/64. "
                "non-trivial: the state / expected result has both set and clear lanes.",
        "explanation": "breadth-first search over reachable mask representations calling the real operations; after every transition alpha(state) (lane i = extract<i>) is compared with "
                       "an array-of-bool model, and in every new state count/any/all/none, ==/!=, Vector(mask), mask(Vector(mask)), set_bits, keep/clear/blend, inequality with every "
                       "one-lane neighbour, canonical raw representation and 'equal lanes implies ==' are checked",
        "assumptions": ["a failing BFS case is replayed by repeating the deterministic search for its subject"],
    },
    "C08": {
        "tus": ["t_mem"],
        "configs": int_cfgs,
        "rule": "for every vector type: every element count n in 0..W+2 x every element-aligned start offset inside a 64-byte line (aligned forms: multiples of alignof(V)) "
                "x 2 payload patterns with a distinct value per lane, for load / aligned_load / store / aligned_store in run-time, default and compile-time <N> forms (every N in 0..W); "
                "gather / scatter (32/64-bit types): 6 index shapes (identity, reversed, stride 3, descending, negative, all-equal) x every n in 0..W+1 x 2 patterns; to_array, the array "
                "constructor, extract<I> and insert<I> for every I. non-trivial: partial counts (0 < n < W).",
        "explanation": "the environment (where the buffer sits, what surrounds it) is enumerated completely: every call runs in a three-page arena pre-filled with canaries; loaded lanes "
                       "must equal memory in order with the rest zero, a store must change exactly bytes [0, min(n,W)*size) and leave every other arena byte a canary",
        "assumptions": ["a failing case is replayed by repeating the deterministic enumeration for its subject"],
    },
    "C09": {
        "tus": ["t_memfp", "t_memasan"],
        "configs": int_cfgs,
        "rule": "for every vector type and every n in 0..W+1: a buffer of exactly min(n,W) elements placed (i) ending at a page boundary followed by an inaccessible page and (ii) starting at a "
                "page boundary preceded by one, the neighbour being PROT_NONE or PROT_READ (write-back of old bytes faults), for every load/store form; n == 0 with a null pointer and pointers "
                "inside PROT_NONE memory; gather/scatter with the table flush against PROT_NONE pages and wild indices (INT_MAX, INT_MIN, +-3 pages, 2^30) in the inactive lanes. "
                "Second harness (t_memasan): every contiguous load/store form x every n in 0..W+2 x every element-aligned offset of a 64-byte line x 2 payloads, built with "
                "AddressSanitizer, every arena byte outside [p, p+min(n,W)) poisoned before the call. non-trivial: n != W.",
        "explanation": "every call under a SIGSEGV/SIGBUS handler; oracle: no signal, loaded lanes correct, canaries outside the stored elements intact. In the page-protection "
                       "harness reads are observable at page granularity only; the AddressSanitizer harness sees byte-granular accesses of plain vector loads/stores (a "
                       "full-width read-modify-write that stays inside the page and restores the old values), not those of masked-move builtins, which the compilers do not "
                       "instrument. The verdict on masked-store fault suppression is for this CPU",
        "assumptions": ["AddressSanitizer reports the first offending call per code address only (its recover mode suppresses repeats)",
                        "bytes before p inside p's 8-byte shadow granule cannot be poisoned", "hardware gathers/scatters are not instrumented: page protection only",
                        "a failing case is replayed by repeating the deterministic enumeration for its subject"],
    },
    "C14": {
        "tus": ["t_denom"],
        "configs": scalar_cfgs,
        "rule": "for each of the eight integer types and every divisor of the alphabet the real Denominator<T> object is constructed (under a SIGFPE guard) and checked against every "
                "numerator: 8-bit all (n,d) pairs; 16-bit every divisor x lattice/derived numerators (all 2^32 pairs in thorough); 32/64-bit divisors +-1..2^11 (2^16 thorough), the L lattice "
                "(2^k, 2^k+-1, extremes), 512 (8192) values spread over the range; numerators 0, +-1, MIN, MAX, L, the multiples of d nearest both range ends and their neighbours. "
                "Only n == MIN with d == -1 is excluded. non-trivial: |quotient| >= 2.",
        "explanation": "state = the constructed denominator object; for every state value() and div, /, %, /=, %= on every numerator are compared with C++ n/d and n%d; div is called "
                       "unqualified (hidden friend, ADL); a signal while constructing or dividing is a violation",
        "assumptions": ["the shift operators of the class are outside the statement and are not exercised"],
    },
    "C15": {
        "tus": ["t_denomv"],
        "configs": int_cfgs,
        "rule": "for every integer vector type: Denominator<V> built from vectors of W different non-zero divisors walking the divisor alphabet (8-bit: every divisor; 16-bit: every divisor; "
                "32/64-bit: +-1..2^8 (2^11 thorough), K, L members, spread values), each checked against every numerator of the numerator alphabet with every lane at a different phase; "
                "the broadcast constructor Denominator<V>(Denominator<T>(d)) for every d (8-bit, thorough) or the lattice divisors, compared with the model for all lanes; partially uniform divisor vectors (6 divisors, every ordered pair, every split point and every single differing lane). non-trivial: |quotient| >= 2.",
        "explanation": "state = the constructed vector denominator; value() and div, /, %, /=, %= per lane against C++ n/d and n%d; lanes hold different divisors and numerators so a "
                       "cross-lane dependency shows as a wrong lane; a missing broadcast constructor or an inaccessible value() is a violation",
        "assumptions": ["Denominator<int64_t>(-1) (a C14 finding: it traps) is not executed on the broadcast path"],
    },
    "C16": {
        "tus": ["t_scalar"],
        "configs": scalar_cfgs,
        "rule": "for every vector type and every operation that has a scalar overload for exactly its element type (bit functions, rotations, min/max/minmax/clamp, abs/neg_abs/negate, "
                "average/midpoint, keep/clear/blend/set_bits, the float function family): every lane of the vector result against the scalar overload applied to that lane's inputs, over "
                "D8, D16, L32, L64, F32L u F32H, F64S for unary and D8^2, D16xL16, L^2, F32L^2, F64L^2 for binary operations (the 2^32 passes over these values belong to C01..C13), rotations by one amount for the whole vector and per lane, triples for the "
                "mask-driven ones; the mixed-signedness cmp_* functions against comparison in __int128. Configurations: the scalar feature sets {none, X86, POPCNT, LZCNT, BMI, BMI2, all} "
                "and the vector arm cover. Inputs outside an operation's domain (clamp with lo >= hi, NaN for min/max) are not compared.",
        "explanation": "differential exploration: the reference for a lane is AVEL's own scalar overload (selected without implicit promotion), so no expected values are written by hand; "
                       "a disagreement names the operation, type, configuration and input",
        "assumptions": ["scalar overloads against the plain C++ model are decided by C06/C07/C10-C13 (scalar subjects there)"],
    },
    "C17": {
        "tus": ["t_convert"],
        "configs": int_cfgs,
        "rule": "for every integer vector type: convert<counterpart>(v)[0], the converting constructor, bit_cast to the counterpart and to the float vector of the same shape, and the "
                "identity conversion over every 8/16-bit lane value and the L32/L64 lattices joined with the float lattices' bit patterns; for every mask type: convert / converting "
                "constructor / bit_cast to the sibling and to itself over all 2^N lane patterns (N <= 16) or the structured alphabet; width-1 cross-size conversions: every "
                "convert<To, From> specialisation found in the Vec1x* headers of the working tree, against static_cast. non-trivial: top bit of the lane set / mixed mask pattern.",
        "explanation": "every provided conversion on every lane value against static_cast; converted masks are decoded from their raw bytes, so a lane whose truth value changed or a "
                       "non-canonical representation is a failure",
        "assumptions": ["the list of width-1 cross-size conversions is scraped from the headers at run time"],
    },
    "C18": {
        "tus": ["t_alloc", "t_alloc_san"],
        "configs": alloc_cfgs,
        "rule": "for T of size 1,2,3,4,8,16,64 and every power-of-two alignment A from alignof(T) to 4096: breadth-first search over multisets of <= 2 (quick) / 3 (thorough) live "
                "allocations (n, malloc residue) with n in {0,1,3,8,17,4096/sizeof(T)+1} (quick) / {0,1,2,3,7,8,9,16,17,4096/sizeof(T)+1}; transitions: allocate(n) under every "
                "environment answer (address of malloc modulo A in {0,16,A/2,A-16}; aligned_alloc/posix_memalign at 0 or A modulo 2A), deallocate of any live block in any order, "
                "std::vector growth/copy/shrink under every residue; plus every sequence of <= 2/3 allocations freed in every order under ASan+UBSan with the system allocator. "
                "non-trivial: n*sizeof(T) not a multiple of A or of sizeof(size_t), or a non-zero residue.",
        "explanation": "the C allocation functions are interposed by a model heap with red zones; after every transition: pointer aligned to A, the n*sizeof(T) bytes inside one live "
                       "block of the C allocator and disjoint from other live ranges, other blocks' fill patterns intact, free() receives exactly live pointers; at the end of every "
                       "history no leak and no red-zone damage. The visited set is keyed on the sorted multiset: sound because the allocator is stateless (is_always_equal, no free list)",
        "assumptions": ["glibc-like environment: malloc returns 16-byte aligned addresses", "heap errors under ASan abort the sanitizer run and are reported as a crash of that job"],
    },
    "C20": {
        "tus": ["t_prefetch", "t_prefetch32", "t_prefetch128"],
        "configs": prefetch_cfgs,
        "rule": "prefetch_read / prefetch_write x levels L1/L2/L3 x {const void*, uint8, 4-, 64-, 4096-byte objects} x pointer at every byte offset of a 64-byte line in: a valid page, "
                "the last line before a PROT_NONE page, the last data line before a read-only page, inside PROT_NONE pages, a read-only page, null, a non-canonical address, the top "
                "of the address space x n in {0,1,63,64,65,4095,4096,4097,3 pages} at every offset and {65537, 262145, 300000, 2^20+3, 2^24+7} at two offsets (bytes, or the object count covering them; 40 MiB of inaccessible address space follow the pages); builds none / AVEL_SSE2 / full with GCC and Clang, "
                "cache-line macros 32/64/128. non-trivial: any region other than the plain valid page.",
        "explanation": "the complete finite menu of environment placements is enumerated; oracle: no signal, and a checksum over the whole arena (all six pages) is unchanged at the end "
                       "of every (function, level, type) pass",
        "assumptions": ["AVEL_PREFETCH alone does not compile (__PREFETCH__ is no compiler macro): decided and reported by C19, not built here"],
    },
    "C19": {
        "custom": "c19",
        "rule": "states = implication-closed sets of the 23 user-nameable x86 feature macros (+ AVEL_PREFETCH). quick: every single macro, every chain prefix, every AVX-512 sub-extension "
                "alone / +VL / +BW, the arm cover, the full set; thorough: all 4217 closed sets. For each: -fsyntax-only of <avel/Avel.hpp> + <avel/Aligned_allocator.hpp> + a static_assert "
                "table (exactly the documented Vector/Vector_mask specialisations are complete, sizeof == N*sizeof(T), trivially copyable, trivial masks, vecNx*/vecMx*/mask*/arr* aliases "
                "name the widest provided width) naming only the maximal macros; the same with AVEL_AUTO_DETECT and only -m flags; compilers x standards {GCC, Clang} x {11,14,17,20}; and the "
                "generic API program (every catalogued operation the width-1 vector offers, odr-used for every wider vector) compiled at -O0 and linked together with a second translation unit that includes the same headers. non-trivial: every configuration.",
        "explanation": "the oracle is the compiler and linker verdict: a failing static_assert, a compile error, an undefined reference or a multiple definition is a violation keyed by configuration and first error line "
                       "/ symbol; operations offered by the width-1 vector but not declared for a wider one are recorded by the program itself",
        "assumptions": ["expected widths follow the statement: 128-bit with SSE2, 256-bit with AVX2, 512-bit 32/64-bit lanes with AVX-512F, 8/16-bit lanes with AVX-512BW"],
    },
}
