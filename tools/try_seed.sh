#!/bin/bash
# developer tool: run checks against a scratch worktree holding a seeded change; evidence and replays go to /tmp/seedout
# usage: tools/try_seed.sh <worktree> <tier> <property>...
wt=$1; tier=$2; shift 2
mkdir -p /tmp/seedout
for p in "$@"; do
  VERIF_REPO=$wt VERIF_OUT=/tmp/seedout python3 /verif/tools/check.py $p $tier 2>&1 | grep -v "^VIOLATION\|KNOWN-FINDING" | tail -4 | cut -c1-330
done
