#!/bin/bash
# developer tool: confirm a seeded change in its scratch worktree and write seeded/<name>/meta.json
# usage: tools/seed_verify.sh <worktree> <name> <property> "<needs>" "<caught-by summary>"
wt=$1; name=$2; prop=$3; needs=$4; caught=$5
d=/verif/seeded/$name
cd $wt || exit 2
git diff --quiet -- include && { echo "no change applied in $wt"; exit 2; }
cmake -G Ninja -B _bv -S . -DAVEL_BUILD_TESTS=ON -DCMAKE_BUILD_TYPE=RelWithDebInfo >/dev/null 2>&1
cmake --build _bv >/dev/null 2>&1; brc=$?
tests=$(./_bv/tests/AVEL_TESTS --gtest_brief=1 2>&1 | tail -1)
rm -rf _bv
cmd=$(cat demo_cmd.txt)
bash -c "$cmd" >/tmp/seed_demo_with.txt 2>&1; with_rc=$?
git diff -- include > /tmp/seed_verify_patch.$$.diff
git checkout -q -- include
bash -c "$cmd" >/tmp/seed_demo_without.txt 2>&1; without_rc=$?
git apply /tmp/seed_verify_patch.$$.diff; rm -f /tmp/seed_verify_patch.$$.diff
rm -f demo_bin demo a.out
python3 - "$d" "$prop" "$needs" "$caught" "$brc" "$tests" "$with_rc" "$without_rc" "$cmd" <<'PY'
import json,sys
d,prop,needs,caught,brc,tests,w,wo,cmd=sys.argv[1:]
meta={"property":prop,"needs_to_manifest":needs,"demo_cmd":cmd,
 "confirmed":{"test_build_exit":int(brc),"existing_tests":tests.strip(),"demo_exit_with_change":int(w),"demo_exit_without_change":int(wo)},
 "checks":caught}
json.dump(meta,open(d+'/meta.json','w'),indent=1)
print(json.dumps(meta["confirmed"]))
PY
